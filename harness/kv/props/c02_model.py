"""C02, function-level layer: the Gallina model coq/Model/Progress.v tied to the real code.

D-ties (all against $KOPF_REPO's current source, driven in-process under kv.vloop + kv.clock):
  progress:pipeline   the real processing.process_changing_cause with a real OperatorRegistry (kopf.on.* decorators),
                      real progress storages, a ChangingCause built by the real causes.detect_changing_cause, the real
                      execution.execute_handlers_once and lifecycles; execution.execute_handler_once is replaced by a
                      scripted stub returning arbitrary Outcome objects (the ORACLE of the model).
  progress:children   the same, nothing stubbed: real execute_handler_once / invoke_handler / subhandling.execute with
                      user functions that declare sub-handlers (kopf.subhandler) and raise/return what a script says;
                      the `retry` kwarg seen by the user function is what is compared.
  progress:algebra    progression.State / HandlerState methods called directly (from_storage, with_purpose, with_handlers,
                      with_outcomes, without_successes, done, delays, delay, counts, extras, finished/sleeping/awakened,
                      for_storage/as_in_storage) incl. their KeyError / RuntimeError behaviour.
Monitors (the property text read on what the implementation did; independent of the model):
  finished-reinvoked, retry-mismatch, closed-early / closed-late / closed-with-records, record-lost-open-cycle,
  parent-finished-before-children, memory-dependence (restart), rewrite-unchanged.
All times are integer microseconds, multiples of 125 ms, so kopf's float arithmetic is exact.
"""
from __future__ import annotations

import copy
import datetime
import random
import re
from typing import Any, Callable

from kv import canon, clock, coqio as cq, framework as fw, vloop

HEADER = fw.STD_HEADER + 'From KV Require Import Model.Progress.\n'
Q = 125000          # the time quantum, microseconds
US = datetime.timedelta(microseconds=1)
REASONS = ['create', 'update', 'delete', 'resume']
C_REASON = {'create': 'PRCreate', 'update': 'PRUpdate', 'delete': 'PRDelete', 'resume': 'PRResume',
            'noop': 'PRNoop', 'free': 'PRFree', 'gone': 'PRGone'}
TITLE_TO_PURPOSE = {'creation': 'create', 'updating': 'update', 'deletion': 'delete', 'resuming': 'resume'}


# --------------------------------------------------------------------------------------
# kopf, lazily (from $KOPF_REPO)
# --------------------------------------------------------------------------------------

class K:
    ready = False

    @classmethod
    def load(cls) -> None:
        if cls.ready:
            return
        clock.install()
        import kopf
        from kopf._cogs.configs import configuration, diffbase, progress
        from kopf._cogs.structs import bodies, diffs, ephemera, patches, references
        from kopf._core.actions import execution, lifecycles, progression
        from kopf._core.intents import causes, registries
        from kopf._core.reactor import inventory, processing, subhandling
        cls.kopf = kopf
        cls.configuration, cls.diffbase, cls.progress = configuration, diffbase, progress
        cls.bodies, cls.diffs, cls.ephemera, cls.patches, cls.references = bodies, diffs, ephemera, patches, references
        cls.execution, cls.lifecycles, cls.progression = execution, lifecycles, progression
        cls.causes, cls.registries = causes, registries
        cls.inventory, cls.processing, cls.subhandling = inventory, processing, subhandling
        cls.RES = references.Resource(group='kopf.dev', version='v1', plural='kexs', kind='Kex', singular='kex',
                                      shortcuts=frozenset(), categories=frozenset(), subresources=frozenset(),
                                      namespaced=True, preferred=True, verbs=frozenset())
        for name in ('execute_handler_once', 'execute_handlers_once'):
            if not hasattr(execution, name):
                raise RuntimeError(f'observation point missing: execution.{name}')
        cls.ready = True


class LogRec:
    """A stand-in for the cause's logger: records the lines (the pipeline's counters are only visible there)."""

    def __init__(self) -> None:
        self.lines: list[str] = []

    def _rec(self, msg: Any, *a: Any, **k: Any) -> None:
        self.lines.append(str(msg))

    debug = info = warning = error = exception = critical = _rec

    def log(self, lvl: Any, msg: Any, *a: Any, **k: Any) -> None:
        self.lines.append(str(msg))

    def isEnabledFor(self, *_: Any) -> bool:
        return True


# --------------------------------------------------------------------------------------
# time and records
# --------------------------------------------------------------------------------------

def iso(us: int) -> str:
    return (clock.EPOCH + us * US).isoformat(timespec='microseconds')


def from_iso(s: str) -> int:
    d = datetime.datetime.fromisoformat(s)
    if d.tzinfo is None:
        d = d.replace(tzinfo=datetime.timezone.utc)
    delta = d - clock.EPOCH
    n = delta // US
    if n * US != delta:
        raise ValueError(s)
    return n


def us_of_seconds(x: float | int) -> int:
    v = float(x) * 1e6
    if v != int(v):
        raise ValueError(f'not an exact microsecond value: {x!r}')
    return int(v)


TIME_KEYS = ('started', 'stopped', 'delayed')
REC_KEYS = ('started', 'stopped', 'delayed', 'purpose', 'retries', 'success', 'failure', 'message', 'subrefs')


def raw_record(m: dict) -> dict:
    """model-form record (times in us) -> the dict kopf stores"""
    return {k: (iso(v) if k in TIME_KEYS else copy.deepcopy(v)) for k, v in m.items() if v is not None}


def model_record(raw: Any) -> dict | None:
    """what storage.fetch returned -> model form (absent == null)"""
    if raw is None:
        return None
    out = {}
    for k, v in dict(raw).items():
        if v is None:
            continue
        if k not in REC_KEYS:
            raise cq.Unencodable(f'unknown record field {k}')
        out[k] = from_iso(v) if k in TIME_KEYS else (list(v) if k == 'subrefs' else v)
    return out


def coz(x: int | None) -> str:
    return cq.copt(None if x is None else cq.cZ(x))


def cob(x: bool | None) -> str:
    return cq.copt(None if x is None else cq.cbool(x))


def costr(x: str | None) -> str:
    return cq.copt(None if x is None else cq.cstr(x))


def cids(l: Any) -> str:
    return cq.clist(cq.cstr(x) for x in l)


def c_srec(m: dict) -> str:
    subs = m.get('subrefs')
    return (f"(mkPgRec {coz(m.get('started'))} {coz(m.get('stopped'))} {coz(m.get('delayed'))} {costr(m.get('purpose'))} "
            f"{coz(m.get('retries'))} {cob(m.get('success'))} {cob(m.get('failure'))} {costr(m.get('message'))} "
            f"{cq.copt(None if subs is None else cids(subs))})")


def c_body(recs: dict) -> str:
    return cq.clist(cq.cpair(cq.cstr(k), c_srec(v)) for k, v in recs.items())


def c_out(o: dict) -> str:
    return (f"(mkPgOut {cq.cbool(o['final'])} {costr(o.get('exc'))} {coz(o.get('delay'))} {coz(o.get('result'))} "
            f"{cids(o.get('subrefs', []))})")


def c_inv(l: list) -> str:
    return cq.clist(cq.cpair(cq.cstr(k), cq.cZ(n)) for k, n in l)


def c_pact(a: Any) -> str:
    if a is None:
        return 'None'
    if a == 'null':
        return '(Some PNull)'
    return f'(Some (PStore {c_srec(a)}))'


def c_triple(t: Any) -> str:
    return f'({cq.cZ(t[0])}, {cq.cZ(t[1])}, {cq.cZ(t[2])})'


def c_lifecycle(lc: str, picks: list | None) -> str:
    if lc in ('randomized', 'shuffled'):
        return f'(LPick {cq.clist(cq.cnat(i) for i in (picks or []))})'
    return {'all_at_once': 'LAll', 'one_by_one': 'LOne', 'asap': 'LAsap'}[lc]


def c_hstate(h: dict | None) -> str:
    if h is None:
        return 'None'
    return (f"(Some (mkPgHS {cq.cbool(h['active'])} {cq.cZ(h['started'])} {coz(h['stopped'])} {coz(h['delayed'])} "
            f"{costr(h['purpose'])} {cq.cZ(h['retries'])} {cq.cbool(h['success'])} {cq.cbool(h['failure'])} "
            f"{costr(h['message'])} {cids(h['subrefs'])} {cq.copt(None if h['origin'] is None else c_srec(h['origin']))}))")


# --------------------------------------------------------------------------------------
# storages and bodies
# --------------------------------------------------------------------------------------

STORAGES = ['ann', 'ann-nov1', 'status', 'smart', 'multi']


def make_settings(kind: str) -> Any:
    s = K.configuration.OperatorSettings()
    if kind == 'ann':
        s.persistence.progress_storage = K.progress.AnnotationsProgressStorage()
    elif kind == 'ann-nov1':
        s.persistence.progress_storage = K.progress.AnnotationsProgressStorage(prefix='my-op.example.com', v1=False)
    elif kind == 'status':
        s.persistence.progress_storage = K.progress.StatusProgressStorage()
    elif kind == 'smart':
        s.persistence.progress_storage = K.progress.SmartProgressStorage()
    elif kind == 'multi':
        s.persistence.progress_storage = K.progress.MultiProgressStorage([
            K.progress.AnnotationsProgressStorage(prefix='my-op.example.com', v1=False), K.progress.StatusProgressStorage(name='myop')])
    else:
        raise ValueError(kind)
    return s


def put_records(storage: Any, raw: dict, recs: dict) -> dict:
    """The body as the API server would hold it after these records were stored by the real storage."""
    for hid, m in recs.items():
        p = K.patches.Patch({})
        storage.store(key=hid, record=raw_record(m), body=K.bodies.Body(raw), patch=p)
        raw = canon.merge7386(raw, dict(p))
    return raw


def read_record(storage: Any, raw: dict, hid: str) -> Any:
    """The harness's OWN reading of "the progress record of hid on the object": where the storage's store() puts it
    (annotation names by the storage's key convention for THIS body, incl. the mark of Deployment-owned ReplicaSets; the
    status field), decoded here -- not through the storage's fetch(), which is part of what is being checked."""
    import json
    P = K.progress
    if isinstance(storage, P.MultiProgressStorage):
        for sub in storage.storages:
            got = read_record(sub, raw, hid)
            if got is not None:
                return got
        return None
    if isinstance(storage, P.AnnotationsProgressStorage):
        anns = (raw.get('metadata') or {}).get('annotations') or {}
        for full_key in storage.make_keys(hid, body=K.bodies.Body(raw)):
            if anns.get(full_key) is not None:
                return json.loads(anns[full_key])
        return None
    if isinstance(storage, P.StatusProgressStorage):
        cur: Any = raw
        for part in tuple(storage.field) + (hid,):
            cur = cur.get(part) if isinstance(cur, dict) else None
            if cur is None:
                return None
        return {k: v for k, v in cur.items() if v is not None}
    raise RuntimeError(f'observation point missing: unknown progress storage {type(storage).__name__}')


def fetch_model(storage: Any, raw: dict, hid: str) -> dict | None:
    return model_record(read_record(storage, raw, hid))


def shape_of(raw: dict) -> dict:
    """A body of the same kind / ownership (they decide the storage's key mark) and nothing else."""
    meta = {'name': 'n'}
    if (raw.get('metadata') or {}).get('ownerReferences'):
        meta['ownerReferences'] = copy.deepcopy(raw['metadata']['ownerReferences'])
    return {k: v for k, v in (('apiVersion', raw.get('apiVersion')), ('kind', raw.get('kind')), ('metadata', meta)) if v is not None}


def patch_action(storage: Any, body_raw: dict, patch: dict, hid: str) -> Any:
    """What the patch does to the record of `hid`: a stored record | 'null' | None (untouched).
    Only store() of the real storage, the harness's own reader and its own RFC 7386 merge are used."""
    base = shape_of(body_raw)
    in_patch = read_record(storage, canon.merge7386(base, patch), hid)
    if in_patch is not None:
        return model_record(in_patch)
    probe = put_records(storage, copy.deepcopy(base), {hid: {'started': 0, 'retries': 7}})
    after = read_record(storage, canon.merge7386(probe, patch), hid)
    return 'null' if after is None else None


def base_body(case: dict, settings: Any) -> dict:
    """A body on which the real detect_changing_cause yields the wanted reason."""
    raw: dict = {'apiVersion': 'kopf.dev/v1', 'kind': 'Kex',
                 'metadata': {'name': 'n', 'namespace': 'ns', 'uid': 'u', 'labels': {'app': 'x'}},
                 'spec': {'x': case.get('spec_x', 1)}}
    shape = case.get('body_kind', 'kex')
    if shape in ('rs', 'drs'):          # a ReplicaSet, plain or owned by a Deployment (the storages mark the keys of the latter)
        raw['apiVersion'], raw['kind'] = 'apps/v1', 'ReplicaSet'
        if shape == 'drs':
            raw['metadata']['ownerReferences'] = [{'apiVersion': 'apps/v1', 'kind': 'Deployment', 'name': 'dep', 'uid': 'du',
                                                   'controller': True, 'blockOwnerDeletion': True}]
    reason, lh = case['reason'], case['last_handled']
    if reason in ('delete', 'free'):
        raw['metadata']['deletionTimestamp'] = '2030-01-01T00:00:00Z'
    if reason == 'delete' or (reason not in ('free',) and case.get('finalizer')):
        raw['metadata']['finalizers'] = [settings.persistence.finalizer]
    if lh != 'none':
        old = copy.deepcopy(raw)
        if lh == 'diff':
            old['spec']['x'] = raw['spec']['x'] + 1
        db = settings.persistence.diffbase_storage
        p = K.patches.Patch({})
        db.store(body=K.bodies.Body(raw), patch=p, essence=db.build(body=K.bodies.Body(old)))
        raw = canon.merge7386(raw, dict(p))
    return raw


def diffbase_written(settings: Any, patch: dict, raw: dict | None = None) -> bool:
    base = shape_of(raw) if raw is not None else {'metadata': {}}
    return settings.persistence.diffbase_storage.fetch(body=K.bodies.Body(canon.merge7386(base, patch))) is not None


# --------------------------------------------------------------------------------------
# running one step of the real pipeline
# --------------------------------------------------------------------------------------

def run_coro(make: Callable[[], Any], now_us: int) -> Any:
    loop = vloop.new_loop(now_us / 1e6)
    loop.max_spins = 3000
    try:
        with vloop.running(loop):
            task = loop.spawn(make())
            loop.run_until(task.done, now_us / 1e6 + 3600)
            if not task.done():
                raise RuntimeError('the processing step did not finish in virtual time')
            if loop.time() != now_us / 1e6:
                raise RuntimeError('the processing step consumed virtual time')
            return task.result()
    finally:
        vloop.close_loop(loop)


def build_registry(case: dict, calls: list, script: dict | None) -> Any:
    """A fresh OperatorRegistry populated through the public decorators.  `script` is None in stub mode."""
    kopf = K.kopf
    reg = kopf.OperatorRegistry()
    fns: dict[int, Any] = {}

    def body_of(full: str, decl: dict) -> Any:
        """What a scripted function does: log, raise per script, else declare its sub-handlers (which may nest) and return."""
        async def fn(retry: int, **_: Any) -> Any:
            calls.append((full, retry))
            act = (script or {}).get(full, {}).get(retry, ['ok', None])
            if act[0] == 'temp':
                raise kopf.TemporaryError(act[2], delay=act[1] / 1e6)
            if act[0] == 'perm':
                raise kopf.PermanentError(act[1])
            for sub in decl.get('subs', []):
                kopf.subhandler(id=sub['id'], when=(lambda m: (lambda **_: m))(sub['match']))(body_of(f"{full}/{sub['id']}", sub))
            tok = act[1]
            return None if tok is None else (tok if tok % 2 == 0 else {'v': tok})
        fn.__name__ = 'fn_' + full.replace('/', '_')
        return fn

    def make_fn(decl: dict) -> Any:
        return body_of(decl['id'], decl)

    for decl in case['handlers']:
        fn = fns.setdefault(decl['fn'], make_fn(decl))
        when = (lambda m: (lambda **_: m))(decl['match'])
        deco = {'create': kopf.on.create, 'update': kopf.on.update, 'delete': kopf.on.delete, 'resume': kopf.on.resume}[decl['on']]
        kw: dict[str, Any] = dict(id=decl['id'], registry=reg, when=when)
        if decl['on'] == 'resume' and decl.get('deleted') is not None:
            kw['deleted'] = decl['deleted']
        if decl['on'] == 'delete' and decl.get('optional'):
            kw['optional'] = True
        deco('kopf.dev', 'v1', 'kexs', **kw)(fn)
    return reg


LIFECYCLES = ['all_at_once', 'one_by_one', 'asap', 'randomized', 'shuffled']


def run_step(case: dict, raw: dict, settings: Any, stub: bool, memory: dict | None = None) -> dict:
    """One call of the real process_changing_cause on body `raw` at virtual time case['now']."""
    calls: list = []
    picks: list = []
    reg = build_registry(case, calls, None if stub else case.get('script'))
    storage = settings.persistence.progress_storage
    logger = LogRec()
    base_lc = getattr(K.lifecycles, case['lifecycle'])

    def lifecycle(handlers: Any, **kw: Any) -> Any:
        res = base_lc(handlers, **kw)
        hl = list(handlers)
        picks.append([next(i for i, h in enumerate(hl) if h is x) for x in res])
        return res

    stub_calls: list = []

    async def stub_once(settings: Any, handler: Any, cause: Any, state: Any, **_: Any) -> Any:
        stub_calls.append((handler.id, state.retries))
        o = case['oracle'].get(handler.id, {}).get(state.retries, case['default_outcome'])
        tok = o.get('result')
        result = None if tok is None else (tok if tok % 2 == 0 else {'v': tok})
        return K.execution.Outcome(final=o['final'], delay=None if o.get('delay') is None else o['delay'] / 1e6,
                                   result=result, exception=None if o.get('exc') is None else Exception(o['exc']),
                                   subrefs=list(o.get('subrefs', [])))

    out: dict = {}

    async def go() -> None:
        body = K.bodies.Body(raw)
        patch = K.patches.Patch({}, body=body)
        db = settings.persistence.diffbase_storage
        old = db.fetch(body=body)
        new = db.build(body=body, extra_fields=set())
        old = storage.clear(essence=old) if old is not None else None
        new = storage.clear(essence=new) if new is not None else None
        diff = K.diffs.diff(old, new)
        cause = K.causes.detect_changing_cause(
            finalizer=settings.persistence.finalizer,
            raw_event={'type': 'DELETED' if case['reason'] == 'gone' else 'MODIFIED', 'object': raw},
            resource=K.RES, indices={}, logger=logger, patch=patch, body=body, old=old, new=new, diff=diff,
            memo=K.ephemera.Memo(), initial=case['initial'])
        out['reason'] = cause.reason.value
        out['owned'] = [h.id for h in reg._changing.get_resource_handlers(K.RES)]
        out['selected'] = [h.id for h in reg._changing.get_handlers(cause)]
        out['new_differs'] = cause.new is not None and cause.old != cause.new
        mem = K.inventory.ResourceMemory()      # needs the running loop
        for attr, val in (memory or {}).items():
            if attr == 'memo':
                mem.memo.update(val)
            else:
                setattr(mem, attr, val)
        fho_before = mem.fully_handled_once
        real = K.execution.execute_handler_once
        if stub:
            K.execution.execute_handler_once = stub_once
        try:
            delays = await K.processing.process_changing_cause(lifecycle=lifecycle, registry=reg, settings=settings,
                                                               memory=mem, cause=cause)
        finally:
            K.execution.execute_handler_once = real
        out['delays'] = [us_of_seconds(d) for d in delays]
        out['patch'] = copy.deepcopy(dict(patch))
        out['fho'] = bool(mem.fully_handled_once) if not fho_before else None

    run_coro(go, case['now'])
    out['calls'] = stub_calls if stub else calls
    out['picks'] = picks
    out['log'] = logger.lines
    return out


def parse_log(lines: list[str]) -> tuple[list, Any]:
    extras, processed = [], None
    for ln in lines:
        m = re.match(r"^(.+) is superseded by (\w+): (\d+) succeeded; (\d+) failed; (\d+) left to the moment\.$", ln)
        if m:
            t = m.group(1)
            p = TITLE_TO_PURPOSE.get(t.lower(), t[1:-1] if t[:1] in '\'"' else t)
            extras.append([p, [int(m.group(3)), int(m.group(4)), int(m.group(5))]])
        m = re.match(r"^(\w+) is processed: (\d+) succeeded; (\d+) failed\.$", ln)
        if m:
            processed = [int(m.group(2)), int(m.group(3))]
    return extras, processed


def tree_nodes(case: dict) -> dict[str, dict]:
    """full id -> declaration, for every handler and sub-handler of every depth (first declaration of an id wins)."""
    out: dict[str, dict] = {}

    def walk(full: str, decl: dict) -> None:
        if full in out:
            return
        out[full] = decl
        for sub in decl.get('subs', []):
            walk(f"{full}/{sub['id']}", sub)
    for decl in case['handlers']:
        walk(decl['id'], decl)
    return out


def kids_of(full: str, decl: dict, selected_only: bool) -> list[str]:
    return [f"{full}/{x['id']}" for x in decl.get('subs', []) if x['match'] or not selected_only]


def universe_of(case: dict, obs: dict) -> list[str]:
    u: list[str] = []

    def add(x: str) -> None:
        if x not in u:
            u.append(x)
    for x in obs['owned'] + obs['selected']:
        add(x)
    for hid, m in case.get('records', {}).items():
        add(hid)
        for s in m.get('subrefs') or []:
            add(s)
    for tbl in case.get('oracle', {}).values():
        for o in tbl.values():
            for s in o.get('subrefs', []):
                add(s)
    for s in case['default_outcome'].get('subrefs', []) if 'default_outcome' in case else []:
        add(s)
    for full in tree_nodes(case):
        add(full)
    return u


def observe(case: dict, stub: bool) -> dict:
    """Build the body, run the step, decode everything the model predicts."""
    settings = make_settings(case['storage'])
    storage = settings.persistence.progress_storage
    raw = put_records(storage, base_body(case, settings), case['records'])
    return observe_on(case, raw, settings, stub, {'noticed_by_listing': case.get('mem_listed', False)})


def observe_on(case: dict, raw: dict, settings: Any, stub: bool, memory: dict) -> dict:
    storage = settings.persistence.progress_storage
    obs = run_step(case, raw, settings, stub, memory=memory)
    obs['raw'] = raw
    u = universe_of(case, obs)
    obs['universe'] = u
    obs['body_records'] = {k: fetch_model(storage, raw, k) for k in u}
    obs['body_records'] = {k: v for k, v in obs['body_records'].items() if v is not None}
    obs['actions'] = [patch_action(storage, raw, obs['patch'], k) for k in u]
    merged = canon.merge7386(raw, obs['patch'])
    obs['after'] = {k: fetch_model(storage, merged, k) for k in u}
    st = obs['patch'].get('status') or {}
    deliv = []
    for k in u:
        v = st.get(k) if isinstance(st, dict) else None
        deliv.append(v['v'] if isinstance(v, dict) and 'v' in v else (v if isinstance(v, int) and not isinstance(v, bool) else None))
    obs['delivered'] = deliv
    obs['diffbase'] = diffbase_written(settings, obs['patch'], raw)
    obs['extras'], obs['processed'] = parse_log(obs['log'])
    return obs


# --------------------------------------------------------------------------------------
# the Coq side of one pipeline case
# --------------------------------------------------------------------------------------

def leaf_outcome(act: list) -> dict:
    """What the real execute_handler_once makes of a plain scripted function (no limits configured): C11's table."""
    if act[0] == 'ok':
        return {'final': True, 'exc': None, 'delay': None, 'result': act[1], 'subrefs': []}
    if act[0] == 'temp':
        return {'final': False, 'exc': act[2], 'delay': act[1], 'result': None, 'subrefs': []}
    return {'final': True, 'exc': act[1], 'delay': None, 'result': None, 'subrefs': []}


def c_oracle(case: dict, stub: bool) -> str:
    rows = []
    if stub:
        for hid, tbl in case['oracle'].items():
            for n, o in tbl.items():
                rows.append(f'({cq.cstr(hid)}, {cq.cZ(int(n))}, {c_out(o)})')
        return f"(pg_table_oracle {cq.clist(rows)} {c_out(case['default_outcome'])})"
    for hid, tbl in case.get('script', {}).items():
        for n, act in tbl.items():
            rows.append(f'({cq.cstr(hid)}, {cq.cZ(int(n))}, {c_out(leaf_outcome(act))})')
    return f"(pg_table_oracle {cq.clist(rows)} {c_out(leaf_outcome(['ok', None]))})"


def c_family(case: dict) -> list:
    return [(full, kids_of(full, decl, False), kids_of(full, decl, True)) for full, decl in tree_nodes(case).items() if decl.get('subs')]


DEPTH_FUEL = 5      # deeper than any generated nesting


def deep_oracle_term(case: dict, obs: dict, body: str, reason: str, lc: str) -> str:
    """The behaviour of the scripted real functions in this call as a model oracle (family of every depth + leaf table)."""
    fam_rows = []
    for hid, owned, sel in c_family(case):
        n = (obs['body_records'].get(hid) or {}).get('retries') or 0
        act = case.get('script', {}).get(hid, {}).get(n, ['ok', None])
        if act[0] != 'ok':
            continue     # the parent's own code raised: its sub-handlers are never declared/executed
        fam_rows.append(f'({cq.cstr(hid)}, ({coz(act[1])}, {cids(owned)}, {cids(sel)}))')
    return (f"(pg_deep_oracle {cq.cnat(DEPTH_FUEL)} {body} {reason} {lc} {cq.cZ(case['now'])} (pg_table_family {cq.clist(fam_rows)}) "
            f"{c_oracle(case, False)})")


def top_due(case: dict, obs: dict) -> list[str]:
    """The harness's own reading of "due": selected, not recorded finished, recorded delay elapsed."""
    out = []
    for x in obs['selected']:
        m = obs['body_records'].get(x)
        if rec_finished(m) or (m and m.get('delayed') is not None and m['delayed'] > case['now']):
            continue
        out.append(x)
    return out


def pipeline_term(case: dict, obs: dict, stub: bool) -> tuple[str, str]:
    u = obs['universe']
    body = c_body(obs['body_records'])
    lc = c_lifecycle(case['lifecycle'], obs['picks'][0] if obs['picks'] else [])
    reason = C_REASON[obs['reason']]
    if stub:
        orc = c_oracle(case, True)
    else:
        orc = deep_oracle_term(case, obs, body, reason, lc)
    run = (f"(pg_pipeline {body} {cids(obs['owned'])} {reason} {cids(obs['selected'])} {lc} {cq.cZ(case['now'])} "
           f"{cq.cbool(obs['new_differs'])} {orc})")
    top = [c for c in obs['calls'] if '/' not in c[0]] if not stub else obs['calls']
    sub = [c for c in obs['calls'] if '/' in c[0]] if not stub else []
    handler_reason = obs['reason'] in REASONS
    skip = handler_reason and not obs['selected']
    done = None if (not handler_reason or skip) else obs['fho']
    due = (f"list_eqb String.eqb (pg_due {body} {cids(obs['selected'])} {cq.cZ(case['now'])}) {cids(top_due(case, obs))}"
           if set(obs['selected']) <= set(obs['owned']) else 'true')
    term = (f"{due} && pg_result_eqb {run} {cids(u)} {c_inv(top)} {c_inv(sub)} {cq.clist(c_pact(a) for a in obs['actions'])} "
            f"{cq.clist(coz(d) for d in obs['delivered'])} {cob(done)} {cq.cbool(skip)} {cq.clist(cq.cZ(d) for d in obs['delays'])} "
            f"{cq.cbool(obs['diffbase'])} {cq.cbool(bool(obs['fho']))} "
            f"{cq.clist(cq.cpair(cq.cstr(p), c_triple(c)) for p, c in obs['extras'])} "
            f"{cq.copt(None if obs['processed'] is None else cq.cpair(cq.cZ(obs['processed'][0]), cq.cZ(obs['processed'][1])))}")
    diag = (f"(let r := {run} in (r_invoked r, r_sub r, pg_patch_view (r_patch r) {cids(u)}, r_delivered r, r_done r, r_skip r, "
            f"r_delays r, r_diffbase r, r_fho r, r_extras r, r_counts r))")
    return term, diag


# --------------------------------------------------------------------------------------
# generators
# --------------------------------------------------------------------------------------

IDS = ['a', 'b', 'c', 'd', 'e']
BODY_KINDS = ['kex'] * 7 + ['drs'] * 2 + ['rs']      # custom resource / ReplicaSet owned by a Deployment / plain ReplicaSet
MSGS = ['boom', 'later', 'no', 'x y']


def gen_time(r: random.Random, now: int, span: int = 80) -> int:
    return now + r.randrange(-span, span + 1) * Q


def gen_record(r: random.Random, now: int, reason: str, pool: list[str], tidy: bool) -> dict:
    """A progress record as kopf itself could have written it (tidy) or a partial/odd one."""
    m: dict[str, Any] = {}
    started = now - r.randrange(0, 200) * Q
    k = r.randrange(10)
    fin = k < 3
    fail = k == 3
    m['started'] = started
    m['retries'] = r.randrange(0, 4) if not (fin or fail) else r.randrange(1, 4)
    m['success'], m['failure'] = fin, fail
    if fin or fail:
        m['stopped'] = started + r.randrange(0, 50) * Q
    if fail:
        m['message'] = r.choice(MSGS)
    if not (fin or fail) and r.random() < 0.7:
        m['delayed'] = r.choice([now, now + Q, now - Q, gen_time(r, now), gen_time(r, now)])
        if r.random() < 0.7:
            m['message'] = r.choice(MSGS)
    pr = r.random()
    m['purpose'] = reason if pr < 0.6 else r.choice(REASONS) if pr < 0.85 else r.choice(['other', '', None])
    if r.random() < 0.2:
        subs = r.sample(pool, k=r.randrange(1, min(3, len(pool)) + 1))
        m['subrefs'] = sorted(subs) if tidy or r.random() < 0.6 else subs
    if not tidy:
        for key in r.sample(['started', 'retries', 'success', 'failure', 'stopped', 'purpose'], k=r.randrange(0, 3)):
            m.pop(key, None)
        if r.random() < 0.15:
            m['delayed'] = gen_time(r, now)       # e.g. finished yet delayed: left over by an older version
    return {k: v for k, v in m.items() if v is not None}


def gen_outcome(r: random.Random, pool: list[str]) -> dict:
    k = r.randrange(10)
    o: dict[str, Any] = {'final': k < 5, 'exc': None, 'delay': None, 'result': None, 'subrefs': []}
    if k in (3, 4) or (k >= 5 and r.random() < 0.85):
        o['exc'] = r.choice(MSGS)
    if k >= 5 and r.random() < 0.85:
        o['delay'] = r.choice([0, Q, 8 * Q, 480 * Q, r.randrange(0, 100) * Q])
    elif r.random() < 0.05:
        o['delay'] = Q                              # odd but constructible: final with a delay
    if o['exc'] is None and r.random() < 0.5:
        o['result'] = r.randrange(1, 50)
    if r.random() < 0.15:
        o['subrefs'] = r.sample(pool, k=r.randrange(1, min(2, len(pool)) + 1))
    return o


def gen_subs(r: random.Random, depth: int) -> list[dict]:
    """Sub-handler declarations, nested up to `depth` more levels (parent -> child -> leaf_*)."""
    out = []
    for j in range(r.randrange(1, 4)):
        d: dict[str, Any] = {'id': f's{j}', 'match': r.random() < 0.88}
        if depth > 0 and r.random() < 0.45:
            d['subs'] = gen_subs(r, depth - 1)
        out.append(d)
    return out


def gen_handlers(r: random.Random, reason: str, with_subs: bool) -> list[dict]:
    n = r.randrange(0, 5) if r.random() < 0.9 else 0
    ids = r.sample(IDS, k=min(n, len(IDS)))
    hs: list[dict] = []
    fn = 0
    for hid in ids:
        on = reason if (reason in REASONS and r.random() < 0.65) else r.choice(REASONS)
        d = {'id': hid, 'on': on, 'match': r.random() < 0.85, 'fn': fn}
        if on == 'resume' and r.random() < 0.3:
            d['deleted'] = True
        if with_subs and r.random() < 0.5:
            d['subs'] = gen_subs(r, r.choice([0, 1, 1, 2]))
        hs.append(d)
        fn += 1
        x = r.random()
        if x < 0.15:       # the same function registered for a second cause under the same id (the 'reconcile' idiom)
            hs.append({**d, 'on': r.choice([q for q in REASONS if q != on])})
        elif x < 0.22 and not with_subs:     # another function under the same id
            hs.append({'id': hid, 'on': r.choice(REASONS), 'match': r.random() < 0.85, 'fn': fn})
            fn += 1
    r.shuffle(hs)
    return hs


def gen_case(r: random.Random, stub: bool) -> dict:
    reason = r.choice(REASONS * 5 + ['noop', 'free', 'gone'])
    now = r.randrange(1000, 100000) * Q
    case: dict[str, Any] = {'reason': reason, 'now': now, 'storage': r.choice(STORAGES),
                            'lifecycle': r.choice(LIFECYCLES if stub else LIFECYCLES[:3]),
                            'spec_x': r.randrange(1, 9), 'mem_listed': r.random() < 0.5,
                            'body_kind': r.choice(BODY_KINDS)}
    case['last_handled'] = {'create': 'none', 'update': 'diff', 'resume': 'same', 'noop': 'same'}.get(reason) or r.choice(['none', 'same', 'diff'])
    case['initial'] = True if reason == 'resume' else False if reason == 'noop' else r.random() < 0.35
    case['finalizer'] = r.random() < 0.5
    case['handlers'] = gen_handlers(r, reason, with_subs=not stub)
    hids = []
    for d in case['handlers']:
        if d['id'] not in hids:
            hids.append(d['id'])
    subids = [x for x in tree_nodes(case) if '/' in x]
    pool = (subids or []) + ['a/s1', 'b/s1', 'z', 'q/w'] if stub else (subids or ['z'])
    pool = list(dict.fromkeys(pool))
    recs: dict[str, dict] = {}
    tidy = r.random() < 0.75
    density = r.choice([0.2, 0.5, 0.8, 1.0])
    one_purpose = r.random() < 0.5       # as kopf leaves it: every record carries the same purpose
    common = r.choice([reason] * 3 + REASONS) if reason in REASONS else r.choice(REASONS)
    for hid in hids + [x for x in pool if r.random() < 0.5] + ([r.choice(IDS)] if r.random() < 0.2 else []):
        if hid not in recs and r.random() < density:
            m = gen_record(r, now, reason if reason in REASONS else common, pool, tidy)
            if one_purpose and 'purpose' in m:
                m['purpose'] = common
            if not stub:
                # sub-handler references of real parents are exactly their declared children
                kids = [x for x in subids if x.startswith(hid + '/')]
                m.pop('subrefs', None)
                if kids and r.random() < 0.8:
                    m['subrefs'] = sorted(kids)
            recs[hid] = m
    case['records'] = recs
    if stub:
        case['oracle'] = {}
        for hid in hids:
            n = (recs.get(hid) or {}).get('retries') or 0
            case['oracle'][hid] = {n: gen_outcome(r, pool)}
        case['default_outcome'] = {'final': True, 'exc': None, 'delay': None, 'result': None, 'subrefs': []}
    else:
        case['default_outcome'] = {'final': True, 'exc': None, 'delay': None, 'result': None, 'subrefs': []}
        case['script'] = {}
        for hid in hids + subids:
            n = (recs.get(hid) or {}).get('retries') or 0
            k = r.randrange(10)
            if k < 5:
                act: list = ['ok', r.choice([None, r.randrange(1, 50)])]
            elif k < 8:
                act = ['temp', r.choice([0, Q, 8 * Q, 480 * Q]), r.choice(MSGS)]
            else:
                act = ['perm', r.choice(MSGS)]
            case['script'][hid] = {n: act}
    return case


# --------------------------------------------------------------------------------------
# monitors: the property text on what the implementation did
# --------------------------------------------------------------------------------------

def rec_finished(m: dict | None) -> bool:
    return bool(m and (m.get('success') or m.get('failure')))


def final_of(case: dict, obs: dict, stub: bool, hid: str, n: int) -> bool | None:
    """Did the invocation (hid, n) end finally?  None when the harness cannot tell from its own script."""
    if stub:
        o = case['oracle'].get(hid, {}).get(n, case['default_outcome'])
        return bool(o['final'])
    act = case.get('script', {}).get(hid, {}).get(n, ['ok', None])
    if act[0] == 'temp':
        return False
    if act[0] == 'perm':
        return True
    decl = tree_nodes(case).get(hid) or {}
    # a parent finishes exactly when every selected sub-handler has finished (at every depth)
    for kid in kids_of(hid, decl, True):
        if rec_finished(obs['body_records'].get(kid)):
            continue
        ns = [m for h, m in obs['calls'] if h == kid]
        if not ns or not final_of(case, obs, stub, kid, ns[-1]):
            return False
    return True


def view_refs_closed(case: dict, obs: dict) -> bool:
    """Every sub-handler record on the object is referenced by the record of its top-level ancestor (what kopf maintains)."""
    recs = obs['body_records']
    for k in recs:
        if '/' in k:
            top = k.split('/', 1)[0]
            if k not in ((recs.get(top) or {}).get('subrefs') or []):
                return False
    return True


def monitor_step(ctx: fw.Ctx, case: dict, obs: dict, stub: bool) -> None:
    before = obs['body_records']
    calls = obs['calls']
    handler_reason = obs['reason'] in REASONS
    data = {'layer': 'function', 'stub': stub, 'case': case}
    # (i) a handler whose success / permanent failure is recorded in the view is not invoked
    for hid, n in calls:
        if rec_finished(before.get(hid)):
            ctx.fail('a handler whose success or permanent failure is recorded on the object was invoked again',
                     data, observed={'invoked': [hid, n], 'record': before.get(hid)}, sig='finished-reinvoked')
        # (ii) retry number == recorded attempts
        want = (before.get(hid) or {}).get('retries') or 0
        if n != want:
            ctx.fail('a handler was invoked with a retry number different from its recorded attempts',
                     data, observed={'invoked': [hid, n]}, expected=want, sig='retry-mismatch')
        d = (before.get(hid) or {}).get('delayed')
        if d is not None and d > case['now'] and not rec_finished(before.get(hid)):
            ctx.fail('a handler was invoked before its recorded delay elapsed', data,
                     observed={'invoked': [hid, n], 'delayed': d, 'now': case['now']}, sig='invoked-while-sleeping')
    # every invocation is an attempt, and attempts are recorded: retries + 1 in the patch of this very call (when the record
    # is still there afterwards, i.e. the cycle was not closed / the record not purged), finishing or not
    for hid, n in calls:
        if sum(1 for c in calls if c[0] == hid) != 1:
            continue
        a = obs['after'].get(hid)
        if a is None:
            continue
        had = (before.get(hid) or {}).get('retries') or 0
        if (a.get('retries') or 0) != had + 1:
            ctx.fail('an invocation was not counted: the recorded attempts of the invoked handler did not grow by one', data,
                     observed={'invoked': [hid, n], 'before': before.get(hid), 'after': a}, expected=had + 1, sig='attempt-not-recorded')
    top_calls = [c for c in calls if stub or '/' not in c[0]]
    for hid, n in top_calls:
        if hid not in obs['selected']:
            ctx.fail('a handler that is not selected for the cause was invoked', data, observed=[hid, n], sig='unselected-invoked')
    if not handler_reason:
        if calls or obs['patch'] or obs['fho']:
            ctx.fail('a non-handling cause invoked handlers or touched the object', data, observed={'calls': calls, 'patch': obs['patch']},
                     sig='noop-not-noop')
        return
    # (iii) closed exactly when every selected handler has finished
    fin_after: dict[str, bool | None] = {}
    for hid in obs['selected']:
        if rec_finished(before.get(hid)):
            fin_after[hid] = True
        else:
            ns = [n for h, n in top_calls if h == hid]
            fin_after[hid] = final_of(case, obs, stub, hid, ns[-1]) if ns else False
    if None not in fin_after.values():
        expect_closed = all(fin_after.values())
        closed = bool(obs['fho'])
        if closed and not expect_closed:
            ctx.fail('the cycle was closed although a selected handler has not finished', data,
                     observed={'finished_after': fin_after}, sig='closed-early')
        if not closed and expect_closed:
            ctx.fail('every selected handler has finished but the cycle was not closed', data,
                     observed={'finished_after': fin_after}, sig='closed-late')
        if obs['diffbase'] != (closed and obs['new_differs']):
            ctx.fail('last-handled state written at the wrong moment', data,
                     observed={'written': obs['diffbase'], 'closed': closed, 'differs': obs['new_differs']},
                     sig='closed-early' if obs['diffbase'] else 'closed-late')
    closed = bool(obs['fho'])
    if closed and obs['selected']:
        left = [k for k in obs['owned'] if obs['after'].get(k) is not None]
        for k in obs['selected']:
            # references: recorded before + reported now
            refs = list((before.get(k) or {}).get('subrefs') or [])
            left += [s for s in refs if obs['after'].get(s) is not None]
        if 'history_step' in case or view_refs_closed(case, obs):     # a view kopf produced itself, or one in that form
            # in property terms: no record of an owned handler or of any of its sub-handlers of any depth remains
            left += [u for u in obs['universe'] if obs['after'].get(u) is not None
                     and any(u == k or u.startswith(k + '/') for k in obs['owned'])]
        if left:
            ctx.fail('the cycle was closed but progress records remain on the object', data, observed=sorted(set(left)),
                     sig='closed-with-records')
    if not closed:
        # an open cycle keeps what it has recorded: a finished handler stays finished, attempts are not forgotten
        for k, m in before.items():
            relevant = k in obs['selected'] or any(k in ((before.get(p) or {}).get('subrefs') or []) for p in obs['selected'])
            if not relevant:
                continue
            a = obs['after'].get(k)
            lost = a is None or (rec_finished(m) and not rec_finished(a)) or ((a.get('retries') or 0) < (m.get('retries') or 0))
            if lost:
                ctx.fail('the cycle stays open but a progress record of a selected handler (or of its sub-handler) was dropped or reset',
                         {**data, 'lost': k, 'superseded_unselected': sorted(
                             x for x in obs['owned'] if x not in obs['selected']
                             and (before.get(x) or {}).get('purpose') not in (None, '', obs['reason']))},
                         observed={'before': m, 'after': a}, sig='record-lost-open-cycle')
    # store-only-changed: a record equal to what is on the object is not written again
    for k, a in zip(obs['universe'], obs['actions']):
        if isinstance(a, dict) and before.get(k) == a:
            ctx.fail('an unchanged progress record was written again', data, observed={k: a}, sig='rewrite-unchanged')
    # children keep the parent open (only where the real execute_handler_once / subhandling.execute ran), at every depth
    nodes = tree_nodes(case)
    for k, n in ([] if stub else calls):
        a = obs['after'].get(k)
        if a is not None and a.get('success'):
            for s in kids_of(k, nodes.get(k) or {}, True):
                sa = obs['after'].get(s)
                if sa is not None and not rec_finished(sa):
                    ctx.fail('a parent handler is recorded as succeeded while a selected sub-handler of it is unfinished', data,
                             observed={k: a, s: sa}, sig='parent-finished-before-children')
    # a handler still due is invoked: per level, all due ones (all_at_once / shuffled) or exactly one of them
    def due_of(ids: list[str]) -> list[str]:
        out = []
        for x in ids:
            m = before.get(x)
            if rec_finished(m):
                continue
            if m and m.get('delayed') is not None and m['delayed'] > case['now']:
                continue
            out.append(x)
        return out
    levels: list[tuple[str, list[str]]] = [('', list(dict.fromkeys(obs['selected'])))]
    if not stub:
        for k, n in calls:
            decl = nodes.get(k) or {}
            act = case.get('script', {}).get(k, {}).get(n, ['ok', None])
            if decl.get('subs') and act[0] == 'ok':
                levels.append((k, kids_of(k, decl, True)))
    for parent, ids in levels:
        due = due_of(ids)
        got = [x for x in due if any(c[0] == x for c in calls)]
        want_all = case['lifecycle'] in ('all_at_once', 'shuffled')
        if (want_all and len(got) != len(due)) or (not want_all and due and len(got) != 1):
            ctx.fail('a handler that is due (unfinished, not delayed) at this level was not invoked as its lifecycle demands', data,
                     observed={'level': parent or '(top)', 'due': due, 'invoked': got, 'lifecycle': case['lifecycle']}, sig='due-not-invoked')


def match_f0201(f: dict) -> bool:
    """F0201: the supersession purge (State.purge(handlers=owned) when other purposes are present) drops records that
    State.store does not write back: unchanged ones and those of sub-handlers."""
    if f['sig'] != 'record-lost-open-cycle':
        return False
    return bool(f['case'].get('superseded_unselected')) and (f['observed'] or {}).get('after') is None


# --------------------------------------------------------------------------------------
# corpus: hand-seeded dangerous views
# --------------------------------------------------------------------------------------

def corpus_cases() -> list[tuple[dict, bool]]:
    now = 8000 * Q
    ok = {'final': True, 'exc': None, 'delay': None, 'result': None, 'subrefs': []}
    tmp = {'final': False, 'exc': 'later', 'delay': 8 * Q, 'result': None, 'subrefs': []}
    base = {'now': now, 'storage': 'ann', 'lifecycle': 'asap', 'spec_x': 1, 'mem_listed': False, 'finalizer': True,
            'default_outcome': ok}
    done_upd = {'started': now - 80 * Q, 'stopped': now - 80 * Q, 'purpose': 'update', 'retries': 1, 'success': True, 'failure': False}
    retry_upd = {'started': now - 80 * Q, 'delayed': now - Q, 'purpose': 'update', 'retries': 1, 'success': False, 'failure': False,
                 'message': 'later'}
    out: list[tuple[dict, bool]] = []
    # F8 at the function level: one id for update and delete, deletion requested while the update cycle is open
    out.append(({**base, 'name': 'f8-shared-id', 'reason': 'delete', 'last_handled': 'diff', 'initial': False,
                 'handlers': [{'id': 'a', 'on': 'update', 'match': True, 'fn': 0}, {'id': 'a', 'on': 'delete', 'match': True, 'fn': 0},
                              {'id': 'b', 'on': 'update', 'match': True, 'fn': 1}],
                 'records': {'a': done_upd, 'b': retry_upd}, 'oracle': {'a': {1: ok}, 'b': {1: tmp}}}, True))
    # a finished sibling + a sleeping one: nothing may run, nothing may be rewritten
    out.append(({**base, 'name': 'all-asleep', 'reason': 'update', 'last_handled': 'diff', 'initial': False, 'lifecycle': 'all_at_once',
                 'handlers': [{'id': 'a', 'on': 'update', 'match': True, 'fn': 0}, {'id': 'b', 'on': 'update', 'match': True, 'fn': 1}],
                 'records': {'a': done_upd, 'b': {**retry_upd, 'delayed': now + Q}}, 'oracle': {'a': {1: ok}, 'b': {1: ok}}}, True))
    # delayed exactly now: awake
    out.append(({**base, 'name': 'delayed-exactly-now', 'reason': 'update', 'last_handled': 'diff', 'initial': False,
                 'handlers': [{'id': 'a', 'on': 'update', 'match': True, 'fn': 0}],
                 'records': {'a': {**retry_upd, 'delayed': now}}, 'oracle': {'a': {1: ok}}}, True))
    # supersession with a filtered-out sibling: the purge-all drops an unchanged same-purpose record (F0201)
    out.append(({**base, 'name': 'f0201-unchanged-record-purged', 'reason': 'update', 'last_handled': 'diff', 'initial': False,
                 'handlers': [{'id': 'a', 'on': 'update', 'match': True, 'fn': 0}, {'id': 'b', 'on': 'create', 'match': True, 'fn': 1},
                              {'id': 'c', 'on': 'update', 'match': True, 'fn': 2}],
                 'records': {'a': done_upd, 'b': {**retry_upd, 'purpose': 'create'}}, 'oracle': {'a': {1: ok}, 'c': {0: tmp}}}, True))
    # resume superseded by update while a filtered sibling drops out: sub-handler records of the continued parent are purged
    out.append(({**base, 'name': 'f0201-subrecords-purged', 'reason': 'update', 'last_handled': 'diff', 'initial': True, 'mem_listed': True,
                 'handlers': [{'id': 'p', 'on': 'resume', 'match': True, 'fn': 0, 'subs': [{'id': 's1', 'match': True}, {'id': 's2', 'match': True}]},
                              {'id': 'q', 'on': 'resume', 'match': False, 'fn': 1}, {'id': 'u', 'on': 'update', 'match': True, 'fn': 2}],
                 'records': {'p': {'started': now - 80 * Q, 'delayed': now + 8 * Q, 'purpose': 'resume', 'retries': 1, 'success': False,
                                   'failure': False, 'message': 'None', 'subrefs': ['p/s1', 'p/s2']},
                             'p/s1': {**done_upd, 'purpose': 'resume'}, 'p/s2': {**retry_upd, 'purpose': 'resume', 'delayed': now + 8 * Q},
                             'q': {**retry_upd, 'purpose': 'resume'}},
                 'script': {'u': {0: ['ok', None]}}}, False))
    # closing with sub-handlers: their records go with the parent's
    out.append(({**base, 'name': 'close-with-children', 'reason': 'create', 'last_handled': 'none', 'initial': False, 'lifecycle': 'all_at_once',
                 'handlers': [{'id': 'p', 'on': 'create', 'match': True, 'fn': 0, 'subs': [{'id': 's1', 'match': True}, {'id': 's2', 'match': True}]}],
                 'records': {'p': {'started': now - 80 * Q, 'delayed': now - Q, 'purpose': 'create', 'retries': 1, 'success': False,
                                   'failure': False, 'message': 'None', 'subrefs': ['p/s1', 'p/s2']},
                             'p/s1': {**done_upd, 'purpose': 'create'}, 'p/s2': {**retry_upd, 'purpose': 'create'}},
                 'script': {'p': {1: ['ok', 4]}, 'p/s2': {1: ['ok', 7]}}}, False))
    # no handler selected while records of an abandoned cycle exist (skip: last-handled written, records stay)
    out.append(({**base, 'name': 'skip-with-stale-records', 'reason': 'update', 'last_handled': 'diff', 'initial': False,
                 'handlers': [{'id': 'a', 'on': 'update', 'match': False, 'fn': 0}],
                 'records': {'a': retry_upd}, 'oracle': {'a': {1: ok}}}, True))
    return out


# --------------------------------------------------------------------------------------
# the State / HandlerState algebra, driven directly
# --------------------------------------------------------------------------------------

def hs_view(h: Any) -> dict:
    def t(x: Any) -> Any:
        return None if x is None else (x - clock.EPOCH) // US
    return {'active': bool(h.active), 'started': t(h.started), 'stopped': t(h.stopped), 'delayed': t(h.delayed),
            'purpose': None if h.purpose is None else str(getattr(h.purpose, 'value', h.purpose)), 'retries': h.retries,
            'success': bool(h.success), 'failure': bool(h.failure), 'message': h.message, 'subrefs': list(h.subrefs),
            'origin': model_record(h._origin)}


def algebra_cases(ctx: fw.Ctx, n: int) -> list[fw.Case]:
    r = ctx.rng
    cases: list[fw.Case] = []
    H = lambda hid: K.execution.Handler(id=hid, fn=None, param=None, errors=None, timeout=None, retries=None, backoff=None)
    for i in range(n):
        now = r.randrange(1000, 100000) * Q
        kind = r.choice(STORAGES)
        settings = make_settings(kind)
        storage = settings.persistence.progress_storage
        pool = ['a/s1', 'b/s1', 'z']
        recs = {hid: gen_record(r, now, r.choice(REASONS), pool, r.random() < 0.7) for hid in IDS if r.random() < 0.6}
        owned = [x for x in IDS if r.random() < 0.8]
        shape = r.choice(BODY_KINDS)
        raw = put_records(storage, shape_of(base_body({'reason': 'create', 'last_handled': 'none', 'body_kind': shape}, settings)), recs)
        ops: list[dict] = []
        for _ in range(r.randrange(1, 5)):
            k = r.randrange(10)
            if k < 3:
                ops.append({'op': 'purpose', 'p': r.choice(REASONS + [None, 'other']), 'ids': r.sample(IDS, k=r.randrange(0, 3))})
            elif k < 6:
                ops.append({'op': 'handlers', 'ids': r.sample(IDS, k=r.randrange(0, 4))})
            elif k < 9:
                ops.append({'op': 'outcomes', 'outs': {hid: gen_outcome(r, pool) for hid in r.sample(IDS, k=r.randrange(0, 3))}})
            else:
                ops.append({'op': 'nosucc'})
        data = {'layer': 'algebra', 'now': now, 'storage': kind, 'records': recs, 'owned': owned, 'ops': ops}
        res: dict = {}

        async def go() -> None:
            st = K.progression.State.from_storage(body=K.bodies.Body(raw), storage=storage, handlers=[H(x) for x in owned])
            err = None
            applied = 0
            for op in ops:
                try:
                    if op['op'] == 'purpose':
                        st = st.with_purpose(op['p'], handlers=[H(x) for x in op['ids']])
                    elif op['op'] == 'handlers':
                        st = st.with_handlers([H(x) for x in op['ids']])
                    elif op['op'] == 'outcomes':
                        st = st.with_outcomes({hid: K.execution.Outcome(
                            final=o['final'], delay=None if o['delay'] is None else o['delay'] / 1e6,
                            exception=None if o['exc'] is None else Exception(o['exc']), subrefs=list(o['subrefs']))
                            for hid, o in op['outs'].items()})
                    else:
                        st = st.without_successes()
                except KeyError:
                    err = 'key'
                    break
                except RuntimeError:
                    err = 'runtime'
                    break
                applied += 1
            res['err'], res['applied'] = err, applied
            res['items'] = {hid: hs_view(st[hid]) for hid in st}
            res['purpose'] = None if st.purpose is None else str(getattr(st.purpose, 'value', st.purpose))
            res['done'] = bool(st.done)
            res['delays'] = [us_of_seconds(d) for d in st.delays]
            res['delay'] = None if st.delay is None else us_of_seconds(st.delay)
            res['counts'] = list(st.counts)
            res['extras'] = {str(p): list(c) for p, c in st.extras.items()}
            res['flags'] = {hid: [bool(st[hid].finished), bool(st[hid].sleeping), bool(st[hid].awakened)] for hid in st}
            res['stored'] = {hid: model_record(st[hid].as_in_storage()) for hid in st}
            res['changed'] = {hid: st[hid].as_in_storage() != st[hid]._origin for hid in st}

        run_coro(go, now)
        # the Coq side: fold the applied operations, then compare every observable
        t = f"(pg_from_storage {c_body(recs)} {cids(owned)} {cq.cZ(now)})"
        defined = []
        for j, op in enumerate(ops[:res['applied'] + (1 if res['err'] else 0)]):
            if op['op'] == 'purpose':
                defined.append(f"(pg_with_purpose_defined {t} {cids(op['ids'])})")
                nt = f"(pg_with_purpose {t} {costr(op['p'])} {cids(op['ids'])})"
            elif op['op'] == 'handlers':
                defined.append('true')
                nt = f"(pg_with_handlers {t} {cids(op['ids'])} {cq.cZ(now)})"
            elif op['op'] == 'outcomes':
                outs = cq.clist(cq.cpair(cq.cstr(h), c_out(o)) for h, o in op['outs'].items())
                defined.append(f"(pg_with_outcomes_defined {t} {outs})")
                nt = f"(pg_with_outcomes {t} {outs} {cq.cZ(now)})"
            else:
                defined.append('true')
                nt = f"(pg_without_successes {t})"
            if j < res['applied']:
                t = nt
        want_def = [True] * res['applied'] + ([False] if res['err'] else [])
        u = IDS
        items = cq.clist(c_hstate(res['items'].get(k)) for k in u)
        flags = cq.clist('None' if k not in res['flags'] else
                         f"(Some ({cq.cbool(res['flags'][k][0])}, {cq.cbool(res['flags'][k][1])}, {cq.cbool(res['flags'][k][2])}))" for k in u)
        stored = cq.clist('None' if k not in res['stored'] else
                          f"(Some ({c_srec(res['stored'][k])}, {cq.cbool(res['changed'][k])}))" for k in u)
        term = (f"(let st := {t} in pg_state_eqb st {cids(u)} {items} {costr(res['purpose'])} && "
                f"list_eqb Bool.eqb {cq.clist(defined)} {cq.clist(cq.cbool(b) for b in want_def)} && "
                f"Bool.eqb (pg_done st) {cq.cbool(res['done'])} && "
                f"list_eqb Z.eqb (pg_zsort (pg_delays st {cq.cZ(now)})) (pg_zsort {cq.clist(cq.cZ(d) for d in res['delays'])}) && "
                f"pg_oz_eqb (pg_delay st {cq.cZ(now)}) {coz(res['delay'])} && "
                f"pg_triple_eqb (pg_counts st) {c_triple(res['counts'])} && "
                f"Nat.eqb (List.length (pg_extras st)) {cq.cnat(len(res['extras']))} && "
                f"forallb (fun pc => match pg_find (fst pc) (pg_extras st) with Some c => pg_triple_eqb c (snd pc) | None => false end) "
                f"{cq.clist(cq.cpair(cq.cstr(p), c_triple(c)) for p, c in res['extras'].items())} && "
                f"list_eqb (opt_eqb (fun x y => Bool.eqb (fst (fst x)) (fst (fst y)) && Bool.eqb (snd (fst x)) (snd (fst y)) && Bool.eqb (snd x) (snd y))) "
                f"(map (fun k => match pg_find k (st_items st) with Some h => Some (pg_finished h, pg_sleeping {cq.cZ(now)} h, pg_awakened {cq.cZ(now)} h) | None => None end) {cids(u)}) {flags} && "
                f"list_eqb (opt_eqb (fun x y => pg_srec_eqb (fst x) (fst y) && Bool.eqb (snd x) (snd y))) "
                f"(map (fun k => match pg_find k (st_items st) with Some h => Some (pg_for_storage h, pg_changed h) | None => None end) {cids(u)}) {stored})")
        diag = f"(let st := {t} in (st, pg_done st, pg_delays st {cq.cZ(now)}, pg_counts st, pg_extras st))"
        cases.append(fw.Case(term, {**data, 'observed': res}, diag=diag))
        ctx.count('algebra_ops', '+'.join(o['op'] for o in ops[:2]))
        if res['err']:
            ctx.count('algebra_errors', res['err'])
    return cases


# --------------------------------------------------------------------------------------
# entry point
# --------------------------------------------------------------------------------------

def nontrivial(case: dict, obs: dict) -> bool:
    """The function-level reading of the C02 rule: the view carries progress of >= 2 handlers, at least one finished
    or retried, and something is selected."""
    recs = obs['body_records']
    return len(recs) >= 2 and bool(obs['selected']) and any(rec_finished(m) or (m.get('retries') or 0) > 0 for m in recs.values())


def one_case(ctx: fw.Ctx, case: dict, stub: bool, cases: list[fw.Case]) -> None:
    try:
        obs = observe(case, stub)
    except Exception as e:      # the unchanged pipeline never raises on these inputs (C02_pipeline_defined)
        ctx.fail('the processing step raised', {'layer': 'function', 'stub': stub, 'case': case}, observed=repr(e), sig='step-raised')
        return
    want = case['reason']
    if obs['reason'] != want:
        ctx.correspondence_break('D:progress', {'what': 'the generated body did not yield the wanted cause', 'want': want,
                                                'got': obs['reason'], 'case': case})
        return
    judge(ctx, case, obs, stub, cases)


def judge(ctx: fw.Ctx, case: dict, obs: dict, stub: bool, cases: list[fw.Case], replay_restart: bool = True) -> None:
    if not set(obs['selected']) <= set(obs['owned']):
        ctx.fail('a cause handler is not among the resource handlers', {'layer': 'function', 'case': case}, observed=obs['selected'],
                 expected=obs['owned'], sig='selected-not-owned')
    # restart: the same view in a process with another memory behaves identically
    if replay_restart and ctx.rng.random() < 0.25:
        settings = make_settings(case['storage'])
        mem = {'noticed_by_listing': not case.get('mem_listed', False), 'fully_handled_once': True, 'memo': {'x': 1}}
        again = run_step(case, obs['raw'], settings, stub, memory=mem)
        same = all(again[k] == obs[k] for k in ('calls', 'patch', 'delays', 'selected', 'picks')) or case['lifecycle'] in ('randomized', 'shuffled')
        ctx.count('restart_replays', 'same' if same else 'different')
        if not same:
            ctx.fail('the same view is processed differently by a process with another in-memory state (restart)',
                     {'layer': 'function', 'stub': stub, 'case': case}, observed={k: again[k] for k in ('calls', 'patch', 'delays')},
                     expected={k: obs[k] for k in ('calls', 'patch', 'delays')}, sig='memory-dependence')
    monitor_step(ctx, case, obs, stub)
    try:
        term, diag = pipeline_term(case, obs, stub)
    except cq.Unencodable as e:
        ctx.correspondence_break('D:progress', {'what': f'unencodable observation: {e}', 'case': case})
        return
    cases.append(fw.Case(term, {'layer': 'function', 'stub': stub, 'case': case,
                                'observed': {k: obs[k] for k in ('reason', 'owned', 'selected', 'calls', 'picks', 'actions', 'delays',
                                                                 'delivered', 'diffbase', 'fho', 'extras', 'processed', 'universe')}},
                         diag=diag))
    ctx.count('pipeline_reason', obs['reason'])
    ctx.count('pipeline_lifecycle', case['lifecycle'])
    ctx.count('body_kind', f"{case.get('body_kind', 'kex')}/{case['storage']}")
    ctx.count('pipeline_branch', 'not-a-handling-cause' if obs['reason'] not in REASONS else 'skip' if not obs['selected'] else
              'closed' if obs['fho'] else 'open')
    ctx.count('pipeline_supersession', 'extras' if obs['extras'] else 'none')
    ctx.count('pipeline_invocations', str(min(len(obs['calls']), 4)))
    if not stub:
        ctx.count('invocation_depth', str(max([c[0].count('/') for c in obs['calls']] + [0]) if obs['calls'] else 'none'))
        ctx.count('declared_nesting', str(max([x.count('/') for x in tree_nodes(case)] + [0])))
    if nontrivial(case, obs):
        ctx.nontriv(['fn', stub, case])
    ctx.sample({'function_level': {'reason': obs['reason'], 'selected': obs['selected'], 'records': obs['body_records'],
                                   'invoked': obs['calls'], 'closed': obs['fho']}}, limit=2)


# --------------------------------------------------------------------------------------
# function-level histories: the real pipeline step after step on the evolving object (with sub-handlers, which the
# whole-operator simulation does not generate)
# --------------------------------------------------------------------------------------

def gen_history(r: random.Random) -> dict:
    hs = []
    ids = r.sample(IDS, k=r.randrange(1, 4))
    for fn, hid in enumerate(ids):
        on = r.choice(['create', 'update', 'update', 'resume', 'resume', 'delete'])
        d: dict[str, Any] = {'id': hid, 'on': on, 'match': r.random() < 0.9, 'fn': fn}
        if r.random() < 0.6:
            d['subs'] = gen_subs(r, r.choice([0, 1, 2, 2]))
        hs.append(d)
        x = r.random()
        if x < 0.3:         # one function for creation, updates and resuming: several cycles on the same object run it
            for other in ('create', 'update', 'resume'):
                if other != on:
                    hs.append({**d, 'on': other})
        elif x < 0.45:
            hs.append({**d, 'on': r.choice([q for q in REASONS if q != on])})
    allids = list(tree_nodes({'handlers': hs}))
    script: dict[str, dict] = {}
    for hid in dict.fromkeys(allids):
        tbl = {}
        for n in range(4):
            k = r.randrange(10)
            tbl[n] = ['ok', r.choice([None, r.randrange(1, 50)])] if k < 6 or n == 3 else \
                ['temp', r.choice([0, Q, 8 * Q]), r.choice(MSGS)] if k < 9 else ['perm', r.choice(MSGS)]
        script[hid] = tbl
    steps = []
    for _ in range(r.randrange(4, 15)):
        k = r.randrange(20)
        ev = 'none' if k < 9 else 'spec' if k < 13 else 'toggle' if k < 16 else 'restart' if k < 18 else 'delete' if k < 19 else 'early'
        steps.append({'event': ev, 'which': r.randrange(0, 8)})
    return {'storage': r.choice(STORAGES), 'lifecycle': r.choice(LIFECYCLES[:3]), 'handlers': hs, 'script': script, 'steps': steps,
            'body_kind': r.choice(BODY_KINDS),
            'start': r.choice(['new', 'listed-handled']), 'now': r.randrange(1000, 50000) * Q}


def run_history(ctx: fw.Ctx, hist: dict, cases: list[fw.Case], runs: list[fw.Case] | None = None) -> None:
    settings = make_settings(hist['storage'])
    handlers = copy.deepcopy(hist['handlers'])
    now = hist['now']
    base = {'reason': 'create' if hist['start'] == 'new' else 'resume', 'last_handled': 'none' if hist['start'] == 'new' else 'same',
            'finalizer': True, 'spec_x': 1, 'body_kind': hist.get('body_kind', 'kex')}
    raw = base_body(base, settings)
    mem = {'noticed_by_listing': hist['start'] != 'new', 'fully_handled_once': False}
    succeeded: dict[str, int] = {}
    explained: set[str] = set()
    last_reason = None
    total_calls = 0
    attempts: dict[str, int] = {}      # invocations of an id since its record was (re)created, counted from the call log
    call_terms: list[str] = []
    traces: list[list] = []
    closings = 0
    owned0: list[str] | None = None
    last_obs: dict | None = None
    for si, st in enumerate(hist['steps']):
        evs = st['event'].split('+')
        if 'spec' in evs:
            raw = copy.deepcopy(raw)
            raw['spec']['x'] += 1
        if 'toggle' in evs and handlers:      # a filter of one function starts / stops matching the object
            h = handlers[st['which'] % len(handlers)]
            flipped = not h['match']
            for other in handlers:
                if other['id'] == h['id'] and other['fn'] == h['fn']:
                    other['match'] = flipped
        if 'restart' in evs:
            mem = {'noticed_by_listing': True, 'fully_handled_once': False}
        if 'delete' in evs:
            raw = copy.deepcopy(raw)
            raw['metadata']['deletionTimestamp'] = '2030-01-01T00:00:00Z'
        case = {'reason': 'auto', 'now': now, 'storage': hist['storage'], 'lifecycle': hist['lifecycle'], 'handlers': copy.deepcopy(handlers),
                'script': hist['script'], 'initial': bool(mem['noticed_by_listing'] and not mem['fully_handled_once']),
                'default_outcome': {'final': True, 'exc': None, 'delay': None, 'result': None, 'subrefs': []},
                'history_step': si}
        try:
            obs = observe_on(case, raw, settings, False, {'noticed_by_listing': mem['noticed_by_listing']})
        except Exception as e:
            ctx.fail('the processing step raised', {'layer': 'function-history', 'history': hist, 'step': si}, observed=repr(e), sig='step-raised')
            return
        judge(ctx, {**case, 'history': hist}, obs, False, cases, replay_restart=False)
        # the same call as an element of a model RUN (pg_run_calls): the model keeps its own object between the calls
        if owned0 is None:
            owned0 = list(obs['owned'])
        if owned0 == list(obs['owned']) and set(obs['selected']) <= set(obs['owned']):
            lcs = c_lifecycle(case['lifecycle'], None)
            rs = C_REASON[obs['reason']]
            call_terms.append(f"(mkPgCall {rs} {cids(obs['selected'])} {lcs} {cq.cZ(now)} {cq.cbool(obs['new_differs'])} "
                              f"(fun b => {deep_oracle_term(case, obs, 'b', rs, lcs)}))")
            traces.append([c for c in obs['calls'] if '/' not in c[0]] + [c for c in obs['calls'] if '/' in c[0]])
            closings += 1 if obs['fho'] else 0
            last_obs = obs
        else:
            runs = None
        # what kopf maintains on the object (C02_refs_closed_preserved): every sub-handler record, of any depth, is listed
        # in the record of its top-level ancestor -- otherwise nothing would ever remove it
        for k, m1 in obs['after'].items():
            if m1 is not None and '/' in k:
                top = k.split('/', 1)[0]
                if k not in ((obs['after'].get(top) or {}).get('subrefs') or []):
                    ctx.fail('a sub-handler record on the object is not referenced by the record of its top-level ancestor',
                             {'layer': 'function', 'stub': False, 'case': {**case, 'history': hist}}, observed={'record': k, 'top': obs['after'].get(top)},
                             sig='unreferenced-subrecord')
        # ids whose record was dropped in this step (whether matched by a known finding or not) explain a later re-run
        for k, m0 in obs['body_records'].items():
            if obs['after'].get(k) is None and not obs['fho']:
                explained.add(k)
        if obs['reason'] != last_reason:
            succeeded.clear()
            explained.clear()
            last_reason = obs['reason']
        # the n-th invocation of a handler (of any depth) since its progress started carries retry = n-1
        for hid in list(attempts):
            if obs['body_records'].get(hid) is None:
                del attempts[hid]               # the record is gone (cycle closed / purged): the count starts anew
        for hid, n in obs['calls']:
            if hid in attempts or obs['body_records'].get(hid) is None:
                cnt = attempts.get(hid, 0)
                if n != cnt:
                    ctx.fail('the retry number of an invocation is not the number of earlier invocations of that handler in this cycle',
                             {'layer': 'function', 'stub': False, 'case': {**case, 'history': hist}}, observed={'invoked': [hid, n]},
                             expected=cnt, sig='retry-not-attempt-count')
                attempts[hid] = cnt + 1
        for hid, n in obs['calls']:
            total_calls += 1
            fin = final_of(case, obs, False, hid, n)
            act = hist['script'].get(hid, {}).get(n, ['ok', None])
            if fin and act[0] == 'ok':
                if hid in succeeded and hid not in explained:
                    ctx.fail('a handler succeeded twice within one handling cycle', {'layer': 'function-history', 'history': hist, 'step': si, 'id': hid},
                             observed={'first': succeeded[hid], 'again': si}, sig='double-success')
                succeeded[hid] = si
        raw = canon.merge7386(raw, obs['patch'])
        if obs['fho']:
            mem['fully_handled_once'] = True
            succeeded.clear()
            explained.clear()
            if obs['reason'] == 'delete':       # what process_resource_causes does next: the finalizer goes, the object with it
                raw['metadata']['finalizers'] = []
        delays = obs['delays']
        if si + 1 < len(hist['steps']) and 'early' in hist['steps'][si + 1]['event'].split('+'):
            now += Q
        else:
            now += max(Q, min(delays)) if delays else 8 * Q
    ctx.count('history_fn_calls', '0' if not total_calls else '1-3' if total_calls <= 3 else '4-8' if total_calls <= 8 else '>8')
    if runs is not None and last_obs is not None and owned0 is not None:
        u = last_obs['universe']
        term = (f"pg_run_eqb (pg_run_calls {cids(owned0)} nil {cq.clist(call_terms)}) {cids(u)} "
                f"{cq.clist(c_inv(t) for t in traces)} "
                f"{cq.clist(cq.copt(None if last_obs['after'].get(k) is None else c_srec(last_obs['after'][k])) for k in u)}")
        diag = (f"(let run := pg_run_calls {cids(owned0)} nil {cq.clist(call_terms)} in (map pg_trace (fst run), snd run))")
        runs.append(fw.Case(term, {'layer': 'function-history', 'history': hist, 'observed': {'traces': traces, 'final': last_obs['after']}}, diag=diag))
        ctx.count('run_calls', str(len(call_terms)) if len(call_terms) < 10 else '>=10')
        ctx.count('run_closings', str(min(closings, 3)))
        ctx.count('run_max_depth', str(max([c[0].count('/') for t in traces for c in t] + [0])))


def load_corpus() -> list[dict]:
    out = []
    d = fw.ROOT / 'corpus' / 'C02'
    for f in sorted(d.glob('fn_*.json')) if d.is_dir() else []:
        import json
        out.append(json.loads(f.read_text()))
    return out


def int_keys(tbl: dict) -> dict:
    return {hid: {int(n): v for n, v in t.items()} for hid, t in tbl.items()}


def differential(ctx: fw.Ctx) -> None:
    ok, logtxt = fw.build_models(['Model/Progress.v'])
    if not ok:
        ctx.correspondence_break('model build', logtxt[-1500:])
        return
    K.load()
    ctx.matchers['F0201'] = match_f0201
    r = ctx.rng
    pipeline: list[fw.Case] = []
    children: list[fw.Case] = []
    runs: list[fw.Case] = []
    for case, stub in corpus_cases():
        one_case(ctx, case, stub, pipeline if stub else children)
    for item in load_corpus():
        if 'function_case' in item:
            case = item['function_case']
            for key in ('oracle', 'script'):
                if key in case:
                    case[key] = int_keys(case[key])
            one_case(ctx, case, bool(item.get('stub')), pipeline if item.get('stub') else children)
        elif 'function_history' in item:
            hist = item['function_history']
            hist['script'] = int_keys(hist['script'])
            run_history(ctx, hist, children, runs)
    for _ in range(ctx.scale(1100, 12000)):
        one_case(ctx, gen_case(r, True), True, pipeline)
    for _ in range(ctx.scale(350, 4000)):
        one_case(ctx, gen_case(r, False), False, children)
    for _ in range(ctx.scale(90, 1000)):
        run_history(ctx, gen_history(r), children, runs)
    algebra = algebra_cases(ctx, ctx.scale(400, 3000))
    ctx.differential('progress_pipeline', HEADER, pipeline, shard=120)
    ctx.differential('progress_children', HEADER, children, shard=120)
    ctx.differential('progress_runs', HEADER, runs, shard=25)
    ctx.differential('progress_algebra', HEADER, algebra, shard=120)


def replay(ctx: fw.Ctx, body: dict) -> bool:
    """Re-run a function-level failing input of a replay file on the current tree: True iff the property still fails on it.
    (To be called from c02.replay when body['case'].get('layer', '').startswith('function').)"""
    K.load()
    ctx.matchers = {}
    c = body.get('case') or {}
    sink: list[fw.Case] = []
    if c.get('layer') == 'function-history':
        hist = c['history']
        hist['script'] = int_keys(hist['script'])
        run_history(ctx, hist, sink)
    elif c.get('layer') == 'function':
        case = c['case']
        for key in ('oracle', 'script'):
            if key in case:
                case[key] = int_keys(case[key])
        if 'history' in case:               # a step of a function-level history: replay the whole history
            hist = case['history']
            hist['script'] = int_keys(hist['script'])
            run_history(ctx, hist, sink)
        else:
            one_case(ctx, case, bool(c.get('stub')), sink)
    else:
        return False
    return bool(ctx.failures)
