"""C06 — the finalizer is never released early, always released eventually."""
from __future__ import annotations

from kv import cycle_monitors as cm, cycle_runner as cr, cycle_sim as cs, framework as fw

RULE = cr.RULE_HISTORY
MONITORS = [cm.mon_c06]


def match_f8(f: dict) -> bool:
    """F8: one function id registered for update AND delete; deletion requested while the update cycle is open."""
    return f['sig'] == 'released-early-handler' and bool(f['case'].get('id_shared_with_other_cause'))


def gen(r, i):
    return cs.gen_scenario(r, n_actions=12, daemons=(i % 2 == 0),
                           weights={'delete': 2.5, 'foreign_fin_add': 2.0, 'foreign_fin_del': 1.5, 'conflict422': 2.0, 'recreate': 0.2})


def run(ctx: fw.Ctx) -> int:
    ctx.matchers = {'F8': match_f8}
    ctx.proofs()
    function_level(ctx)
    cr.run_histories(ctx, ctx.scale(350, 8000), MONITORS, gen=gen)
    return ctx.finish(RULE, level_note=['closed loop: real kopf.operator() against harness/kv/fakeapi.py'])


def function_level(ctx: fw.Ctx) -> None:
    try:
        from kv.props import c06_model
    except ImportError:
        ctx.correspondence_break('D:finalizers', 'harness/kv/props/c06_model.py is missing')
        return
    c06_model.differential(ctx)


def replay(ctx: fw.Ctx, body: dict) -> bool:
    ctx.matchers = {'F8': match_f8}
    return cr.replay_scenario(ctx, body, MONITORS)
