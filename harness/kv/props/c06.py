"""C06 — the finalizer is never released early, always released eventually."""
from __future__ import annotations

from kv import cycle_monitors as cm, cycle_runner as cr, cycle_sim as cs, framework as fw

RULE = cr.RULE_HISTORY
MONITORS = [cm.mon_c06]


def match_f8(f: dict) -> bool:
    """F8: one function id registered for update AND delete; deletion requested while the update cycle is open."""
    return f['sig'] == 'released-early-handler' and bool(f['case'].get('id_shared_with_other_cause'))


def gen_daemon_termination(r):
    """Deletion of an object whose daemon does not exit when asked: the whole (backoff, timeout) grid - also backoff >= timeout -
    with unrelated events arriving in the middle of the termination window (each one causes a cycle at an arbitrary age)."""
    bo, to = r.choice([None, 1, 2, 3]), r.choice([1, 2, 3])
    temper = r.choice(['ignores', 'ignores', 'cancellable'])
    hs = [{'kind': 'daemon', 'id': 'dm0', 'temper': temper, 'duration': 2, 'ignore_max': r.choice([1, 1000]),
           'kwargs': {'cancellation_backoff': bo, 'cancellation_timeout': to}}]
    if r.random() < 0.4:
        hs.append({'kind': 'delete', 'id': 'd0', 'script': r.choice([['ok'], ['temp', 'ok']]), 'kwargs': {'backoff': 1}})
    acts = [{'a': 'create', 'obj': 'obj1', 'spec': {'a': 1}}, {'a': 'run', 'dt': r.choice([1, 2])}, {'a': 'delete', 'obj': 'obj1'}]
    for _ in range(r.choice([0, 1, 2, 3, 4])):
        acts.append({'a': 'run', 'dt': r.choice([0.25, 0.5, 0.75, 1, 1.25])})
        acts.append(r.choice([{'a': 'edit_label', 'obj': 'obj1', 'labels': {'app': r.choice(['v', 'w', None])}},
                              {'a': 'edit_status', 'obj': 'obj1', 'status': {'external': r.randrange(100)}},
                              {'a': 'foreign_fin_add', 'obj': 'obj1', 'fin': 'other/fin'},
                              {'a': 'foreign_fin_del', 'obj': 'obj1', 'fin': 'other/fin'}]))
    acts.append({'a': 'run', 'dt': 8})
    return {'cfg': cs.gen_cfg(r), 'handlers': hs, 'actions': acts}


def gen(r, i):
    if i % 5 == 4:
        return gen_daemon_termination(r)
    return cs.gen_scenario(r, n_actions=12, daemons=(i % 2 == 0),
                           weights={'delete': 2.5, 'foreign_fin_add': 2.0, 'foreign_fin_del': 1.5, 'conflict422': 2.0, 'recreate': 0.2})


def run(ctx: fw.Ctx) -> int:
    ctx.matchers = {'F8': match_f8}
    ctx.proofs()
    function_level(ctx)
    cr.run_histories(ctx, ctx.scale(350, 8000), MONITORS, gen=gen)
    return ctx.finish(RULE, level_note=['closed loop: real kopf.operator() against harness/kv/fakeapi.py'])


def function_level(ctx: fw.Ctx) -> None:
    try:
        from kv.props import c06_model
    except ImportError:
        ctx.correspondence_break('D:finalizers', 'harness/kv/props/c06_model.py is missing')
        return
    c06_model.differential(ctx)


def replay(ctx: fw.Ctx, body: dict) -> bool:
    ctx.matchers = {'F8': match_f8}
    if 'scenario' not in (body.get('case') or {}):     # a function-level failing input: the model module replays it
        try:
            from kv.props import c06_model
        except ImportError:
            print('replay file carries no scenario and there is no function-level layer')
            return False
        return c06_model.replay(ctx, body)
    return cr.replay_scenario(ctx, body, MONITORS)
