"""C16 — persistence storages round-trip, isolate and produce valid annotation names."""
from __future__ import annotations

import copy
import json
import re
from typing import Any

from kv import canon, coqio as cq, framework as fw, gen as g, storages as st

RULE = ('cases = (storage configuration x handler id over [A-Za-z0-9_./<>-] of length 1..300 x progress record x body x '
        'pending patch), generated from one PRNG; non-trivial iff the id is longer than 20 chars or contains a replaced '
        'character and the record has >= 2 fields; distinct by (config, id, record) after canonicalisation')

HEADER = fw.STD_HEADER + 'From KV Require Import Base.Dicts Model.Keys Model.Storage.\n'

NAME_RE = re.compile(r'^[A-Za-z0-9]([-A-Za-z0-9_.]*[A-Za-z0-9])?$')


def valid_name_part(full_key: str) -> bool:
    name = full_key.rsplit('/', 1)[-1] if '/' in full_key else full_key
    return len(name) <= 63 and bool(NAME_RE.match(name))


def all_ann_cfgs(cfg: dict) -> list[dict]:
    if cfg['kind'] in ('ann', 'smart'):
        return [cfg]
    if cfg['kind'] == 'multi':
        return [c for s in cfg['storages'] for c in all_ann_cfgs(s)]
    return []


def drop_nulls(rec: Any) -> Any:
    return {k: v for k, v in rec.items() if v is not None} if isinstance(rec, dict) else rec


def own_annotation_keys(storage: Any, key: str, body: Any) -> set[str]:
    from kopf._cogs.configs import progress
    out: set[str] = set()
    if isinstance(storage, progress.AnnotationsProgressStorage):
        out |= set(storage.make_keys(key, body=body))
        out.add(f'{storage.prefix}/kopf-managed')
    elif isinstance(storage, progress.MultiProgressStorage):
        for s in storage.storages:
            out |= own_annotation_keys(s, key, body)
    return out


def own_status_paths(storage: Any, key: str) -> list[tuple]:
    from kopf._cogs.configs import progress
    out: list[tuple] = []
    if isinstance(storage, progress.StatusProgressStorage):
        out.append(tuple(storage.field) + (key,))
    elif isinstance(storage, progress.MultiProgressStorage):
        for s in storage.storages:
            out += own_status_paths(s, key)
    return out


def touch_targets(storage: Any, body: Any) -> tuple[set[str], list[tuple]]:
    """What a touch may write: the touch key(s) and the marker (annotations), the touch field (status)."""
    from kopf._cogs.configs import progress
    ann: set[str] = set()
    sp: list[tuple] = []
    if isinstance(storage, progress.AnnotationsProgressStorage):
        ann |= set(storage.make_keys(storage.touch_key, body=body))
        ann.add(f'{storage.prefix}/kopf-managed')
    elif isinstance(storage, progress.StatusProgressStorage):
        sp.append(tuple(storage.touch_field))
    elif isinstance(storage, progress.MultiProgressStorage):
        for s in storage.storages:
            a, b = touch_targets(s, body)
            ann |= a
            sp += b
    return ann, sp


def strip_own(body: dict, ann_keys: set[str], status_paths: list[tuple]) -> dict:
    from kopf._cogs.structs import dicts
    b = copy.deepcopy(body)
    anns = b.get('metadata', {}).get('annotations')
    if isinstance(anns, dict):
        for k in ann_keys:
            anns.pop(k, None)
        if not anns:
            b['metadata'].pop('annotations')
    for p in status_paths:
        try:
            dicts.remove(b, p)
        except (TypeError, KeyError):
            pass
    # empty containers created/removed on the way are not user data
    def prune(x: Any) -> Any:
        if isinstance(x, dict):
            return {k: prune(v) for k, v in x.items() if not (isinstance(v, dict) and not prune(v))}
        return x
    return prune(b)


def _name_of(fk: str) -> str:
    return fk.rsplit('/', 1)[-1] if '/' in fk else fk


def _marked_key(c: dict) -> str:
    """The id as the key-forming convention sees it: with the '-ofDRS' mark for ReplicaSets owned by Deployments."""
    return st.safe(c['key'] + ('-ofDRS' if c.get('drs') else ''))


def match_f2(f: dict) -> bool:
    """F2: the name is invalid ONLY because its first character (= the safe first character of the id) or its last
    character (= the safe last character of an un-hashed id) is not alphanumeric; length and charset are fine."""
    if f['sig'] != 'invalid-name':
        return False
    c = f['case']
    name = _name_of(f['observed'])
    key = _marked_key(c)
    if len(name) > 63 or not name or not re.fullmatch(r'[-A-Za-z0-9_.]+', name):
        return False
    first_ok, last_ok = name[0].isalnum(), name[-1].isalnum()
    first_bad = not first_ok and name[0] == key[0]
    last_bad = not last_ok and name[-1] == key[-1] and name == key[-len(name):]
    return (not first_ok or not last_ok) and (first_ok or first_bad) and (last_ok or last_bad)


def match_f12(f: dict) -> bool:
    """F12: v1 key with a prefix leaving no room for the hash suffix, and an id (with its '-ofDRS' mark, if any) that does not fit."""
    if f['sig'] != 'invalid-name':
        return False
    c = f['case']
    return c['which'] == 'v1' and len(c['prefix']) + 1 + 7 >= 63 and len(_marked_key(c)) > 63 - len(c['prefix']) - 1


def run(ctx: fw.Ctx) -> int:
    from kopf._cogs.structs import bodies, patches
    ctx.matchers = {'F2': match_f2, 'F12': match_f12}

    ctx.proofs()
    ok, logtxt = fw.build_models(['Model/Storage.v'])
    if not ok:
        ctx.correspondence_break('model build', logtxt[-1500:])
        return ctx.finish(RULE)

    G = g.Gen(ctx.rng)
    r = ctx.rng
    n = ctx.scale(1200, 15000)
    D: dict[str, list[fw.Case]] = {k: [] for k in ('keys', 'store', 'fetch', 'purge', 'touch', 'clear', 'dfetch', 'dstore')}

    corpus = [('_private', 'kopf.zalando.org', False), ('fn_', 'kopf.zalando.org', False), ('<lambda>', 'kopf.zalando.org', False),
              ('k' * 100, 'p' * 57, True)]
    long_pairs: list[tuple[str, str]] = []

    for i in range(n):
        if i < len(corpus):
            key, prefix, v1 = corpus[i]
            cfg = {'kind': 'ann', 'prefix': prefix, 'v1': v1, 'verbose': False, 'touch_key': 'touch-dummy'}
        else:
            cfg = st.gen_progress_cfg(r)
            key = G.handler_id()
        record = G.record()
        storage = st.build_progress(cfg)
        storage2 = st.build_progress(cfg)
        body0 = G.body()
        # mostly valid: the body often already carries a record of this key or of a sibling key
        raw_body = body0
        pre_state = r.random()
        if pre_state < 0.75:
            pre = patches.Patch({})
            try:
                if pre_state < 0.2:     # the very record that is about to be stored is on the object already
                    storage.store(key=key, record=record, body=bodies.Body(body0), patch=pre)
                    ctx.count('pre_state', 'same-record-on-object')
                else:
                    storage.store(key=r.choice([key, G.handler_id()]), record=G.record(), body=bodies.Body(body0), patch=pre)
                    ctx.count('pre_state', 'other-record-on-object')
                raw_body = canon.merge7386(body0, dict(pre))
            except (TypeError, KeyError, AttributeError):
                raw_body = body0
        else:
            ctx.count('pre_state', 'nothing-stored')
        body = bodies.Body(raw_body)
        drs = cq.cbool(raw_body.get('kind') == 'ReplicaSet'
                       and any(o.get('kind') == 'Deployment' for o in raw_body.get('metadata', {}).get('ownerReferences', [])))
        try:
            mbody = canon.cj(raw_body)
        except cq.Unencodable:
            continue
        sc = st.coq_progress(cfg)
        dg = st.digest_table([key] + st.cfg_keys(cfg))
        data = {'cfg': cfg, 'key': key, 'record': record, 'body': raw_body}
        ctx.count('config', cfg['kind'])
        ctx.count('record', 'total' if set(record) == set(g.RECORD_FIELDS) else 'partial')
        ctx.count('id_length', '<=20' if len(key) <= 20 else '<=63' if len(key) <= 63 else '>63')
        ctx.sample({'cfg': cfg, 'key': key, 'record': record})
        if (len(key) > 20 or st.safe(key) != key) and len(record) >= 2:
            ctx.nontriv([cfg, key, record])

        # ---------- key forming (every annotation storage in the configuration) ----------
        for ac in all_ann_cfgs(cfg):
            from kopf._cogs.configs import progress
            s1 = progress.AnnotationsProgressStorage(prefix=ac['prefix'], v1=ac['v1'])
            keys = list(s1.make_keys(key, body=body))
            keys_again = list(progress.AnnotationsProgressStorage(prefix=ac['prefix'], v1=ac['v1']).make_keys(key, body=body))
            term = (f"list_eqb String.eqb (full_keys {dg} {cq.cstr(ac['prefix'])} {cq.cbool(ac['v1'])} {mbody} {cq.cstr(key)}) "
                    f"{cq.clist(cq.cstr(k) for k in keys)}")
            D['keys'].append(fw.Case(term, {**data, 'keys': keys},
                                     diag=f"full_keys {dg} {cq.cstr(ac['prefix'])} {cq.cbool(ac['v1'])} {mbody} {cq.cstr(key)}"))
            # monitor: determinism
            if keys != keys_again:
                ctx.fail('names differ between two storage instances (restart)', data, keys_again, keys, sig='nondeterministic-name')
            # monitor: validity of generated names
            for j, fk in enumerate(keys):
                if not valid_name_part(fk):
                    ctx.fail('generated annotation name is not a valid Kubernetes name', {'prefix': ac['prefix'], 'v1': ac['v1'], 'key': key,
                             'which': 'v2' if j == 0 else 'v1', 'drs': drs == 'true'}, observed=fk, sig='invalid-name')
            if len(key) > 63:
                long_pairs.append((key, keys[0]))
                # twins: long ids that differ only in characters the name sanitising maps together ('/' and '.', '<' '>' and '_'),
                # as kopf itself produces them (fn/spec.a/b for a sub-handler of a field handler vs fn/spec.a.b for a deeper field)
                for a, b in (('/', '.'), ('.', '/'), ('<', '_'), ('>', '_'), ('_', '<')):
                    i = key.find(a, 1)
                    if i > 0:
                        twin = key[:i] + b + key[i + 1:]
                        tk = list(progress.AnnotationsProgressStorage(prefix=ac['prefix'], v1=ac['v1']).make_keys(twin, body=body))
                        long_pairs.append((twin, tk[0]))
                        ctx.count('long_twins', f'{a}->{b}')
                        break

        # ---------- store ----------
        patch0 = patches.Patch({})
        pend = r.random()
        if pend < 0.25:   # a pending patch with unrelated content
            patch0 = patches.Patch({'metadata': {'annotations': {'pending': 'x'}}, 'status': {'other': 1}})
            ctx.count('pending_patch', 'unrelated')
        elif pend < 0.6:  # the cycle's patch is shared: an earlier operation of the same cycle on the very same key is pending
            op = r.choice(['purge', 'store-other', 'store-same'])
            try:
                if op == 'purge':
                    storage.purge(key=key, body=body, patch=patch0)
                elif op == 'store-other':
                    storage.store(key=key, record=G.record(), body=body, patch=patch0)
                else:
                    storage.store(key=key, record=record, body=body, patch=patch0)
                ctx.count('pending_patch', 'own-key:' + op)
            except (TypeError, KeyError, AttributeError, ValueError):
                patch0 = patches.Patch({})
                ctx.count('pending_patch', 'none')
        else:
            ctx.count('pending_patch', 'none')
        p_in = copy.deepcopy(dict(patch0))
        kind, _ = canon.run_res(lambda: storage.store(key=key, record=record, body=body, patch=patch0))
        p_store = copy.deepcopy(dict(patch0))
        exp = canon.cres(kind, canon.cj(p_store) if kind == 'ok' else None)
        D['store'].append(fw.Case(
            f'res_eqb jeqb (pstore {dg} {sc} {cq.cstr(key)} (match {canon.cj(record)} with JObj o => o | _ => [] end) {mbody} {canon.cj(p_in)}) {exp}',
            {**data, 'patch_in': p_in, 'patch_out': p_store, 'outcome': kind},
            diag=f'pstore {dg} {sc} {cq.cstr(key)} (match {canon.cj(record)} with JObj o => o | _ => [] end) {mbody} {canon.cj(p_in)}'))
        if kind != 'ok':
            continue
        stored_body = canon.merge7386(raw_body, p_store)

        # ---------- fetch (from the body as the server would have it after the patch) ----------
        fb = r.choice([stored_body, stored_body, raw_body])
        kind, got = canon.run_res(lambda: storage2.fetch(key=key, body=bodies.Body(fb)))
        try:
            exp = canon.cres(kind, cq.copt(canon.cj(got)) if got is not None else 'None') if kind == 'ok' else canon.cres(kind)
            D['fetch'].append(fw.Case(f'res_eqb ojeqb (pfetch {dg} {sc} {cq.cstr(key)} {canon.cj(fb)}) {exp}',
                                      {**data, 'body': fb, 'fetched': got, 'outcome': kind},
                                      diag=f'pfetch {dg} {sc} {cq.cstr(key)} {canon.cj(fb)}'))
        except cq.Unencodable:
            pass
        # monitor: round trip
        writes = cfg['kind'] != 'status' or not cfg.get('nowrite')
        total = set(record) == set(g.RECORD_FIELDS)   # what kopf writes: HandlerState.for_storage() has every field
        if fb is stored_body and writes and total:
            kind, got = canon.run_res(lambda: storage2.fetch(key=key, body=bodies.Body(stored_body)))
            if kind != 'ok' or drop_nulls(got) != drop_nulls(record):
                ctx.fail('stored record is not read back identically', data, observed=got, expected=drop_nulls(record), sig='roundtrip')
            if json.loads(json.dumps(record)) != record:
                ctx.fail('json oracle law violated', record, sig='json-law')

        # ---------- isolation: nothing but the own keys changed ----------
        ak = own_annotation_keys(storage, key, body)
        sp = own_status_paths(storage, key)
        baseline = canon.merge7386(raw_body, p_in)
        if strip_own(stored_body, ak, sp) != strip_own(baseline, ak, sp):
            ctx.fail('store disturbed data other than its own record', data,
                     observed=strip_own(stored_body, ak, sp), expected=strip_own(baseline, ak, sp), sig='isolation')

        # ---------- purge ----------
        which = r.randrange(4)
        if which == 0:      # record on the server, fresh patch
            pb, pp = stored_body, patches.Patch({})
        elif which == 1:    # record only in the pending patch
            pb, pp = raw_body, patches.Patch(copy.deepcopy(p_store))
        elif which == 2:    # nothing anywhere
            pb, pp = raw_body, patches.Patch({})
        else:               # another handler's record is pending in the cycle's shared patch (C16_isolation_purge)
            pb, pp = r.choice([stored_body, raw_body]), patches.Patch({})
            try:
                storage.store(key='sib.' + key, record=G.record(), body=bodies.Body(pb), patch=pp)
                if r.random() < 0.5:
                    storage.store(key=key, record=record, body=bodies.Body(pb), patch=pp)
                ctx.count('purge_pending', 'sibling-record')
            except (TypeError, KeyError, AttributeError, ValueError):
                pp = patches.Patch({})
                ctx.count('purge_pending', 'none')
        pp_in = copy.deepcopy(dict(pp))
        kind, _ = canon.run_res(lambda: storage.purge(key=key, body=bodies.Body(pb), patch=pp))
        pp_out = copy.deepcopy(dict(pp))
        try:
            exp = canon.cres(kind, canon.cj(pp_out) if kind == 'ok' else None)
            D['purge'].append(fw.Case(f'res_eqb jeqb (ppurge {dg} {sc} {cq.cstr(key)} {canon.cj(pb)} {canon.cj(pp_in)}) {exp}',
                                      {**data, 'body': pb, 'patch_in': pp_in, 'patch_out': pp_out, 'outcome': kind},
                                      diag=f'ppurge {dg} {sc} {cq.cstr(key)} {canon.cj(pb)} {canon.cj(pp_in)}'))
        except cq.Unencodable:
            pass
        if kind == 'ok':
            purged = canon.merge7386(pb, pp_out)
            k2, got = canon.run_res(lambda: storage2.fetch(key=key, body=bodies.Body(purged)))
            if k2 != 'ok' or got is not None:
                ctx.fail('record still readable after purge', {**data, 'purge_case': which}, observed=got, sig='purge')
            pbase = canon.merge7386(pb, pp_in)
            if strip_own(purged, ak, sp) != strip_own(pbase, ak, sp):
                ctx.fail('purge disturbed data other than its own record', {**data, 'purge_case': which},
                         observed=strip_own(purged, ak, sp), expected=strip_own(pbase, ak, sp), sig='isolation')

        # ---------- touch ----------
        tv = r.choice([None, G.timestamp(), 'x'])
        tp = patches.Patch({})
        kind, _ = canon.run_res(lambda: storage.touch(body=bodies.Body(stored_body), patch=tp, value=tv))
        tp_out = copy.deepcopy(dict(tp))
        exp = canon.cres(kind, canon.cj(tp_out) if kind == 'ok' else None)
        D['touch'].append(fw.Case(f'res_eqb jeqb (ptouch {dg} {sc} {canon.cj(stored_body)} (JObj []) {canon.cj(tv)}) {exp}',
                                  {**data, 'body': stored_body, 'value': tv, 'patch_out': tp_out},
                                  diag=f'ptouch {dg} {sc} {canon.cj(stored_body)} (JObj []) {canon.cj(tv)}'))

        if kind == 'ok':   # monitor: the touch writes its own key(s) and the marker only (C16_isolation_touch)
            tak, tsp = touch_targets(storage, bodies.Body(stored_body))
            touched = canon.merge7386(stored_body, tp_out)
            if strip_own(touched, tak, tsp) != strip_own(stored_body, tak, tsp):
                ctx.fail('touch disturbed data other than its own dummy', {**data, 'body': stored_body, 'value': tv},
                         observed=strip_own(touched, tak, tsp), expected=strip_own(stored_body, tak, tsp), sig='isolation')
            ctx.count('touch_wrote', 'yes' if tp_out else 'no')

        # ---------- clear (used on essences; here on whole bodies, which is a superset) ----------
        ess = copy.deepcopy(stored_body)
        kind, got = canon.run_res(lambda: storage.clear(essence=ess))
        exp = canon.cres(kind, canon.cj(got) if kind == 'ok' else None)
        D['clear'].append(fw.Case(f'res_eqb jeqb (pclear {sc} {canon.cj(stored_body)}) {exp}',
                                  {**data, 'body': stored_body, 'cleared': got, 'outcome': kind},
                                  diag=f'pclear {sc} {canon.cj(stored_body)}'))

        # ---------- diff-base storages: store / fetch ----------
        if i % 3 == 0:
            dcfg = st.gen_diffbase_cfg(r)
            ds = st.build_diffbase(dcfg)
            essence = G.obj(2)
            dp = patches.Patch({})
            ddg = st.digest_table(st.cfg_keys(dcfg))
            dsc = st.coq_diffbase(dcfg)
            kind, _ = canon.run_res(lambda: ds.store(body=body, patch=dp, essence=essence))
            dp_out = copy.deepcopy(dict(dp))
            try:
                exp = canon.cres(kind, canon.cj(dp_out) if kind == 'ok' else None)
                D['dstore'].append(fw.Case(f'res_eqb jeqb (dstore {ddg} {dsc} {mbody} (JObj []) {canon.cj(essence)}) {exp}',
                                           {'cfg': dcfg, 'body': raw_body, 'essence': essence, 'patch_out': dp_out},
                                           diag=f'dstore {ddg} {dsc} {mbody} (JObj []) {canon.cj(essence)}'))
            except cq.Unencodable:
                kind = 'skip'
            if kind == 'ok':
                db = canon.merge7386(raw_body, dp_out)
                k2, got = canon.run_res(lambda: st.build_diffbase(dcfg).fetch(body=bodies.Body(db)))
                exp = canon.cres(k2, cq.copt(canon.cj(got)) if got is not None else 'None') if k2 == 'ok' else canon.cres(k2)
                D['dfetch'].append(fw.Case(f'res_eqb ojeqb (dfetch {ddg} {dsc} {canon.cj(db)}) {exp}',
                                           {'cfg': dcfg, 'body': db, 'fetched': got},
                                           diag=f'dfetch {ddg} {dsc} {canon.cj(db)}'))
                if k2 != 'ok' or got != essence:
                    ctx.fail('last-handled state is not read back identically', {'cfg': dcfg, 'body': raw_body, 'essence': essence},
                             observed=got, expected=essence, sig='roundtrip-diffbase')

    # long ids sharing a prefix: names are distinct exactly when the hashes are
    seen: dict[str, str] = {}
    for key, name in long_pairs:
        other = seen.get(name)
        if other is not None and other != key and st.digest(other) != st.digest(key):
            ctx.fail('two long ids with different hashes share a generated name', {'ids': [other, key]}, observed=name, sig='long-collision')
        seen[name] = key

    for name, cases in D.items():
        ctx.differential(name, HEADER, cases, shard=150)
    return ctx.finish(RULE, level_note=['blake2b, base64, json.dumps/loads are oracles (digest bytes supplied to the model; '
                                        'JEnc builds in loads(dumps x) = x, validated per record)'])
