"""C06, function level, T-tie: the real processing.process_resource_event (real registries, real handlers, real
progress/diff-base storages, real application.apply and patching.patch_obj) is driven cycle by cycle for ONE object
against an in-process API server, interleaved with foreign finalizer edits, label/spec edits, deletion requests,
injected conflicts between the requests of patch_obj, and operator restarts.  What happened is written down as a
label trace of Model/Finalizers.v part 3 (the oracles of each LCycle label are filled in from what the real handlers
did) and replayed in the Gallina acceptor Model/FinalizersReplay.v: every label must be enabled and after every
cycle / foreign action the model's server state (finalizers, deletionTimestamp, H's record), the carried fns and the
"H finished for the deletion" ghost must equal the real ones.

The same runs are watched by monitors that read the property text directly off the real server's requests.
"""
from __future__ import annotations

import asyncio
import copy
import json
from typing import Any

from kv import canon, coqio as cq, framework as fw
from kv.props import c06_model as m

FIN = m.FIN
HEADER = fw.STD_HEADER + 'From KV Require Import Base.Dicts Model.Finalizers Model.FinalizersReplay.\n'
MODEL = 'Model/FinalizersReplay.v'
VARIANTS = ['plain', 'multi', 'nofilter', 'shared', 'optional', 'multi2', 'plain']


class K8sServer:
    """One object on the API server (harness evaluators for RFC 7386 / 6902) with the Kubernetes rules that matter
    here: resourceVersion bumped on every accepted write; 422 on a failed test; no new finalizers on an object being
    deleted (422); the object goes away when it is marked for deletion and its last finalizer is removed; 404 then."""

    def __init__(self, env: m.Env, doc: dict) -> None:
        self.env, self.doc = env, copy.deepcopy(doc)
        self.last_doc = copy.deepcopy(doc)
        self.log: list[tuple] = []           # ('req', ctype, status, before, after, payload) | ('foreign', action)
        self.foreign: dict | None = None     # an action of somebody else that lands before the n-th request of this cycle
        self.nreq = 0

    def fins(self) -> list[str]:
        return list(self.doc['metadata'].get('finalizers', [])) if self.doc is not None else []

    gone_labelled: Any = None

    def bump_and_settle(self) -> None:
        assert self.doc is not None
        md = self.doc['metadata']
        md['resourceVersion'] = str(int(md['resourceVersion']) + 1)
        if not md.get('finalizers'):
            md.pop('finalizers', None)
        self.last_doc = copy.deepcopy(self.doc)
        if md.get('deletionTimestamp') and not md.get('finalizers'):
            self.gone_labelled = md.get('labels', {}).get('app') == 'x'
            self.doc = None

    def act(self, a: dict) -> bool:
        """An action of somebody else. Returns False if it is not applicable (then nothing happens)."""
        if self.doc is None:
            return False
        md = self.doc['metadata']
        if a['do'] == 'foreign_add':
            if md.get('deletionTimestamp'):
                return False
            fs = md.setdefault('finalizers', [])
            fs.insert(min(a.get('at', 0), len(fs)), a['name'])
        elif a['do'] == 'foreign_del':
            md['finalizers'] = [x for x in md.get('finalizers', []) if x != a['name']]
        elif a['do'] == 'label':
            labels = md.setdefault('labels', {})
            if a['on']:
                labels['app'] = 'x'
            else:
                labels.pop('app', None)
        elif a['do'] == 'spec':
            self.doc.setdefault('spec', {})['a'] = a['value']
        elif a['do'] == 'delete':
            if md.get('deletionTimestamp'):
                return False
            md['deletionTimestamp'] = '2020-01-01T00:00:00Z'
        else:
            raise RuntimeError(a)
        self.bump_and_settle()
        return True

    async def patch(self, url: str, *, settings: Any, payload: Any = None, headers: Any = None, timeout: Any = None,
                    logger: Any = None) -> Any:
        if self.foreign is not None and self.foreign.get('before') == self.nreq:
            f, self.foreign = self.foreign, None
            if self.act(f):
                self.log.append(('foreign', f))
        self.nreq += 1
        ctype = (headers or {}).get('Content-Type')
        before = copy.deepcopy(self.doc)
        if self.doc is None:
            self.log.append(('req', ctype, 404, before, None, copy.deepcopy(payload)))
            raise self.env.errors.APINotFoundError(None, status=404, headers={})
        if ctype == 'application/merge-patch+json':
            new = canon.merge7386(self.doc, payload)
        elif ctype == 'application/json-patch+json':
            try:
                new = canon.apply6902(self.doc, payload)
            except (canon.PatchTestFailed, canon.PatchInvalid, IndexError, KeyError, ValueError, TypeError):   # invalid for this document
                self.log.append(('req', ctype, 422, before, None, copy.deepcopy(payload)))
                raise self.env.errors.APIUnprocessableEntityError(None, status=422, headers={})
            old_f = self.doc['metadata'].get('finalizers', [])
            new_f = new['metadata'].get('finalizers', []) or []
            if self.doc['metadata'].get('deletionTimestamp') and any(f not in old_f for f in new_f):
                self.log.append(('req', ctype, 422, before, None, copy.deepcopy(payload)))
                raise self.env.errors.APIUnprocessableEntityError(None, status=422, headers={})
        else:
            raise RuntimeError(f'unexpected content type {ctype!r}')
        self.doc = new
        self.bump_and_settle()
        self.log.append(('req', ctype, 200, before, copy.deepcopy(self.last_doc), copy.deepcopy(payload)))
        return copy.deepcopy(self.last_doc)


class World:
    def __init__(self, env: m.Env, variant: str, scripts: dict, labelled: bool, foreign: list[str]) -> None:
        self.env, self.variant, self.scripts = env, variant, scripts
        kopf = env.kopf
        self.reg = env.registries.OperatorRegistry()
        self.calls: list[dict] = []          # every invocation of every handler
        self.counters: dict[tuple, int] = {}
        flt = {'labels': {'app': 'x'}} if variant == 'plain' else {}
        self.c_del = variant != 'optional'
        self.c_shared = variant == 'shared'
        self.filtered = variant in ('plain', 'multi2')
        self.o_filtered = variant == 'multi'
        if variant in ('multi', 'multi2'):
            # several deletion handlers: an optional one registered BEFORE the mandatory H; one of the two is filtered by the label
            kopf.on.delete('kopfexamples', registry=self.reg, id='o', optional=True,
                           **({'labels': {'app': 'x'}} if variant == 'multi' else {}))(self._mkfn('o'))
            kopf.on.delete('kopfexamples', registry=self.reg, id='h', **({'labels': {'app': 'x'}} if variant == 'multi2' else {}))(self._mkfn('h'))
            kopf.on.update('kopfexamples', registry=self.reg, id='u')(self._mkfn('u'))
        elif variant == 'shared':
            fn = self._mkfn('h')
            kopf.on.update('kopfexamples', registry=self.reg, id='h')(fn)
            kopf.on.delete('kopfexamples', registry=self.reg, id='h')(fn)
            kopf.on.update('kopfexamples', registry=self.reg, id='u2')(self._mkfn('u2'))
        elif variant == 'optional':
            kopf.on.delete('kopfexamples', registry=self.reg, id='o', optional=True)(self._mkfn('o'))
            kopf.on.update('kopfexamples', registry=self.reg, id='u')(self._mkfn('u'))
        else:
            kopf.on.delete('kopfexamples', registry=self.reg, id='h', **flt)(self._mkfn('h'))
            kopf.on.update('kopfexamples', registry=self.reg, id='u')(self._mkfn('u'))
        md: dict[str, Any] = {'name': 'obj1', 'namespace': 'ns1', 'uid': 'uid-1', 'resourceVersion': '1'}
        if foreign:
            md['finalizers'] = list(foreign)
        if labelled:
            md['labels'] = {'app': 'x'}
        self.srv = K8sServer(env, {'apiVersion': 'kopf.dev/v1', 'kind': 'KopfExample', 'metadata': md, 'spec': {'a': 0}})
        self.memories = env.inventory.ResourceMemories()
        self.indexers = env.indexing.OperatorIndexers()
        self.resource = env.resource(False)
        self.done = False                    # H invoked with reason=delete and finished
        self.trace: list[tuple[str, str | None]] = []
        self.readable: list[Any] = []
        self.po_calls: list[int] = []
        self.writes: list[dict] = []
        self.cycle_facts: list[dict] = []
        self.armed = False
        self.delete_armed: Any = None
        self.gone_facts: dict | None = None
        self.carried_before: list[str] = []
        self.cycle_no = 0
        self.decision_mdel = True            # did H match the view on which the oldest pending fn was decided
        self.decision_labelled = True
        self.loop = env.loop                 # (a virtual-time loop in the daemon worlds of c06_daemon.py)
        self.consistency_time: Any = None    # passed to process_resource_event by the next cycle
        self.ctime_used = False
        self.write_extra: dict = {}
        self.steady = True                   # no verdict-changing edit while a cycle was in progress or fns were carried
        self.chg_delays: list[list] = []

    def _mkfn(self, hid: str) -> Any:
        w = self

        async def fn(**kw: Any) -> None:
            reason = str(kw['reason'])
            script = w.scripts.get((hid, reason), ['ok'])
            n = w.counters.get((hid, reason), 0)
            w.counters[(hid, reason)] = n + 1
            out = script[min(n, len(script) - 1)]
            w.calls.append({'id': hid, 'reason': reason, 'outcome': out, 'cycle': w.cycle_no})
            if out == 'temp':
                raise w.env.kopf.TemporaryError('later', delay=0)
            if out == 'perm':
                raise w.env.kopf.PermanentError('never')
        fn.__name__ = hid
        return fn

    # ---- what is observed of the real world
    def labelled(self) -> bool:
        doc = self.srv.doc if self.srv.doc is not None else self.srv.last_doc
        return doc['metadata'].get('labels', {}).get('app') == 'x'

    @property
    def gone_h_matched(self) -> bool:
        return bool(self.srv.gone_labelled) if self.filtered else self.srv.gone_labelled is not None

    # ---- hooks of the timed (daemon) worlds
    def wrap(self, label: str) -> str:
        return label

    def mdmn_of(self, labelled: bool) -> bool:
        return False

    def before_cycle(self) -> None:
        pass

    def after_cycle_run(self) -> None:
        pass

    def mdel(self) -> bool:
        return self.labelled() if self.filtered else True

    def rec(self, doc: dict | None) -> bool:
        if doc is None:
            return False
        r = self.env.settings.persistence.progress_storage.fetch(key='h', body=self.env.bodies.Body(doc))
        return bool(r and (r.get('success') or r.get('failure')))

    def carried(self) -> list[str]:
        mems = list(self.memories._items.values())
        if not mems or mems[0].remaining_patch is None:
            return []
        return [self.env.kind_of(f) for f in mems[0].remaining_patch.fns]

    def obs(self) -> str:
        doc = self.srv.doc
        return (f'(Some {{| b_alive := {cq.cbool(doc is not None)}; b_fins := {cq.clist(cq.cstr(x) for x in self.srv.fins())}; '
                f'b_deleting := {cq.cbool(bool(doc and doc["metadata"].get("deletionTimestamp")))}; b_mdel := {cq.cbool(self.mdel())}; '
                f'b_rec := {cq.cbool(self.rec(doc))}; b_carried := {m.cfns(self.carried())}; b_done := {cq.cbool(self.done)}; '
                f'b_idle := true |}})')

    def cfg(self) -> str:
        return (f'{{| c_own := {cq.cstr(FIN)}; c_del := {cq.cbool(self.c_del)}; c_dmn := false; '
                f'c_shared := {cq.cbool(self.c_shared)} |}}')

    # ---- labels
    def label_of(self, a: dict) -> str:
        if a['do'] in ('foreign_add', 'foreign_del'):
            return f'LForeign {cq.clist(cq.cstr(x) for x in self.srv.fins())}'
        if a['do'] in ('label', 'spec'):
            return f'LMatch {cq.cbool(self.mdel())} {cq.cbool(self.mdmn_of(self.labelled()))}'
        if a['do'] == 'delete':
            return 'LDelete'
        raise RuntimeError(a)

    def verdict_on_label(self) -> bool:
        return self.filtered

    def note_edit(self, a: dict, labelled_before: bool, in_cycle: bool) -> None:
        # `armed`: the operator has completed an undisturbed cycle on a view that H matched and nothing changed H's verdict since;
        # only then "gone before the handler was called" is the framework's doing and not a deletion racing with the first sight
        if a['do'] == 'label' and a['on'] != labelled_before and self.filtered:
            self.armed = False
        if a['do'] == 'delete' and self.delete_armed is None and (in_cycle or not (self.srv.doc or {}).get('metadata', {}).get('deletionTimestamp')):
            self.delete_armed = self.armed
        if a['do'] == 'label' and a['on'] != labelled_before and self.verdict_on_label() and (in_cycle or self.carried()):
            self.steady = False

    def foreign_action(self, a: dict) -> None:
        before = self.labelled()
        if self.srv.doc is not None:
            self.note_edit(a, before, False)
        if self.srv.act(a):
            self.trace.append((self.wrap(self.label_of(a)), self.obs()))
            self.readable.append(a)

    def restart(self) -> None:
        self.memories = self.env.inventory.ResourceMemories()
        self.trace.append((self.wrap('LRestart'), self.obs()))
        self.readable.append({'do': 'restart'})

    def cycle(self, interleave: dict | None) -> None:
        env, srv = self.env, self.srv
        self.cycle_no += 1
        ev_type: Any = 'MODIFIED' if srv.doc is not None else 'DELETED'
        if srv.doc is not None and not list(self.memories._items.values()):
            ev_type = None                       # the first sight of the object by this incarnation: the initial listing
        raw = {'type': ev_type, 'object': copy.deepcopy(srv.doc if srv.doc is not None else srv.last_doc)}
        view_rec = self.rec(raw['object'])
        srv.log.clear()
        srv.nreq = 0
        srv.foreign = copy.deepcopy(interleave)
        calls_before = len(self.calls)
        self.carried_before = self.carried()
        self.po_calls.clear()
        self.chg_delays.clear()
        pressure = asyncio.Event()
        pressure.set()
        ctime, self.consistency_time = self.consistency_time, None
        self.ctime_used = ctime is not None
        self.before_cycle()
        real_po, real_chg, real_api = env.patching.patch_obj, env.processing.process_changing_cause, env.api.patch
        w = self

        async def po(**kw: Any) -> Any:
            w.po_calls.append(len(kw['patch'].fns))
            return await real_po(**kw)

        async def chg(**kw: Any) -> Any:
            d = await real_chg(**kw)
            w.chg_delays.append(list(d))
            return d
        env.patching.patch_obj, env.processing.process_changing_cause, env.api.patch = po, chg, srv.patch
        try:
            async def go() -> Any:
                return await env.processing.process_resource_event(
                    lifecycle=env.lifecycles.all_at_once, indexers=self.indexers, registry=self.reg, settings=env.settings,
                    memories=self.memories, memobase=env.ephemera.Memo(), resource=self.resource, raw_event=raw,
                    event_queue=asyncio.Queue(), stream_pressure=pressure, no_throttling=True,
                    consistency_time=ctime)
            self.loop.run_until_complete(go())
            self.after_cycle_run()
        finally:
            env.patching.patch_obj, env.processing.process_changing_cause, env.api.patch = real_po, real_chg, real_api
        new_calls = self.calls[calls_before:]
        h_calls = [c for c in new_calls if c['id'] == 'h' and c['reason'] == 'delete'] if self.c_del else []
        h_fin = any(c['outcome'] in ('ok', 'perm') for c in h_calls)
        if h_fin:
            self.done = True
        h_unfinished = 1 if (h_calls and not h_fin) else 0
        total_delays = len(self.chg_delays[0]) if self.chg_delays else 0
        others_delays = max(0, total_delays - h_unfinished)
        merges = [e for e in srv.log if e[0] == 'req' and e[1] == 'application/merge-patch+json']
        jsons = [e for e in srv.log if e[0] == 'req' and e[1] == 'application/json-patch+json']
        others = [h for h in self.reg._changing.get_all_handlers()
                  if not (self.c_del and h.id == 'h' and str(h.reason) == 'delete')]
        rec_after = self.rec(srv.doc if srv.doc is not None else srv.last_doc)
        view_labelled = raw['object']['metadata'].get('labels', {}).get('app') == 'x'
        k = (f'{{| k_spawn_others := nil; k_chg_others := '
             + cq.clist(f'{{| ch_reqfin := {cq.cbool(bool(h.requires_finalizer))}; ch_prematch := {cq.cbool(view_labelled if (self.o_filtered and h.id == "o") else True)} |}}' for h in others)
             + f'; k_low_empty := true; k_ctime := {"CtSome" if self.ctime_used else "CtNone"}; k_timed_out := {cq.cbool(not self.ctime_used)}; k_sdelays_others := nil; '
             f'k_cdelays_others := {m.czs([1] * others_delays)}; k_h_finishes := {cq.cbool(h_fin)}; '
             f'k_other_rec := {cq.cbool(rec_after)}; k_extra_merge := {cq.cbool(bool(merges))}; k_stop := SStill |}}')
        labels: list[str] = ['LEvent', f'LCycle {k}']
        n_merge = 0
        got_404 = False
        for e in srv.log:
            if e[0] == 'foreign':
                labels.append(self.label_of_logged(e[1]))
            elif e[1] == 'application/merge-patch+json':
                n_merge += 1
                labels.append('LMerge' if n_merge == 1 else f'LMatch {cq.cbool(self.mdel())} {cq.cbool(self.mdmn_of(self.labelled()))}')   # a later touch: rv only
                got_404 = got_404 or e[2] == 404
            else:
                labels.append('LJson')
                got_404 = got_404 or e[2] == 404
        fns_at_apply = self.po_calls[0] if self.po_calls else 0
        if fns_at_apply and not jsons and not (merges and merges[0][2] == 404):
            labels.append('LJson')                    # ops were computed and came out empty: nothing was sent
        for e in srv.log:
            if e[0] == 'foreign':
                self.note_edit(e[1], raw['object']['metadata'].get('labels', {}).get('app') == 'x', True)
        if srv.foreign is not None:                   # the scheduled interleaving did not get its turn: it happens now
            f, srv.foreign = srv.foreign, None
            if srv.doc is not None:
                self.note_edit(f, self.labelled(), False)
            if srv.act(f):
                labels.append(self.label_of(f))
                srv.log.append(('foreign', f))
        # ---- what the monitors need of this cycle (the server's log is cleared at the next one)
        view_md = raw['object']['metadata']
        view_mdel = (view_md.get('labels', {}).get('app') == 'x') if self.filtered else True
        if not self.carried_before:
            self.decision_mdel = view_mdel
            self.decision_labelled = view_md.get('labels', {}).get('app') == 'x'
        for e in srv.log:
            if e[0] != 'req' or e[1] != 'application/json-patch+json':
                continue
            before, after, payload = e[3], e[4], e[5]
            bmd = before['metadata'] if before is not None else {}
            adds = any(op.get('op') == 'add' and (op.get('value') == FIN or op.get('value') == [FIN] or
                                                  (isinstance(op.get('value'), list) and FIN in op['value'])) for op in payload)
            self.writes.append({
                'cycle': self.cycle_no, 't': self.loop.time(), **self.write_extra, 'status': e[2], 'tested': payload[0] if payload else None,
                'before': list(bmd.get('finalizers', [])), 'after': list(after['metadata'].get('finalizers', [])) if after else None,
                'deleting': bool(bmd.get('deletionTimestamp')), 'adds_own': adds, 'labelled_now': bmd.get('labels', {}).get('app') == 'x', 'labelled_at_decision': self.decision_labelled,
                'h_matches_now': (bmd.get('labels', {}).get('app') == 'x') if self.filtered else True,
                'h_matched_in_view': view_mdel, 'h_matched_at_decision': self.decision_mdel,
                'carried_in': fns_at_apply > 0 and bool(self.carried_before),
                'h_done': self.done})
        vmd = raw['object']['metadata']
        self.cycle_facts.append({
            'cycle': self.cycle_no, 'event': ev_type, 'view_deleting': bool(vmd.get('deletionTimestamp')), 'view_held': FIN in vmd.get('finalizers', []),
            'view_h_matches': (vmd.get('labels', {}).get('app') == 'x') if self.filtered else True,
            'carried_before': list(self.carried_before), 'inconsistent': self.ctime_used,
            'json_requests': [e[2] for e in srv.log if e[0] == 'req' and e[1] == 'application/json-patch+json'],
            'held_after': FIN in self.srv.fins(), 'alive_after': self.srv.doc is not None,
            'interfered': any(e[0] == 'foreign' for e in srv.log)})
        cf = self.cycle_facts[-1]
        if cf['event'] != 'DELETED' and not cf['interfered'] and 422 not in cf['json_requests'] and not self.carried():
            self.armed = bool(cf['view_h_matches'] and not cf['view_deleting'])
        for lab in labels[:-1]:
            self.trace.append((self.wrap(lab), None))
        self.trace.append((self.wrap(labels[-1]), self.obs()))
        self.readable.append({'do': 'cycle', 'event': ev_type, 'interleave': interleave, 'view_rec': view_rec,
                              'calls': [{k2: c[k2] for k2 in ('id', 'reason', 'outcome')} for c in new_calls],
                              'requests': [[e[1].split('/')[1].split('+')[0], e[2]] if e[0] == 'req' else ['foreign', e[1]['do']] for e in srv.log],
                              'finalizers_after': self.srv.fins(), 'carried_after': self.carried()})

    def label_of_logged(self, a: dict) -> str:
        # the finalizer list / labels right after that action: reconstructed from the next request's `before`
        if a['do'] in ('foreign_add', 'foreign_del'):
            for i, e in enumerate(self.srv.log):
                if e[0] == 'foreign' and e[1] is a:
                    nxt = self.srv.log[i + 1]
                    doc = nxt[3]
                    return f'LForeign {cq.clist(cq.cstr(x) for x in (doc["metadata"].get("finalizers", []) if doc else []))}'
        if a['do'] in ('label', 'spec'):
            for i, e in enumerate(self.srv.log):
                if e[0] == 'foreign' and e[1] is a:
                    doc = self.srv.log[i + 1][3]
                    lab = doc['metadata'].get('labels', {}).get('app') == 'x' if doc else False
                    return f'LMatch {cq.cbool(lab if self.filtered else True)} {cq.cbool(self.mdmn_of(lab))}'
        if a['do'] == 'delete':
            return 'LDelete'
        raise RuntimeError(a)


def gen_scenario(r: Any, i: int) -> dict:
    variant = VARIANTS[i % len(VARIANTS)]
    scripts = {}
    for hid in ('h', 'u', 'u2', 'o'):
        for reason in ('delete', 'update', 'create'):
            scripts[f'{hid}:{reason}'] = r.choice([['ok'], ['ok'], ['temp', 'ok'], ['temp', 'temp', 'ok'], ['perm'], ['temp', 'perm']])
    if variant == 'shared':
        scripts['u2:update'] = r.choice([['temp', 'temp', 'temp', 'ok'], ['temp', 'ok']])
        scripts['h:update'] = ['ok']
    actions: list[dict] = [{'do': 'cycle'}, {'do': 'cycle'}]
    n = r.choice([6, 8, 10, 12])
    deleted = False
    for _ in range(n):
        x = r.random()
        if x < 0.45:
            a: dict[str, Any] = {'do': 'cycle'}
            if r.random() < 0.12:
                a['inconsistent'] = True
            if r.random() < 0.5:
                a['interleave'] = {**gen_foreign(r, deleted), 'before': r.choice([0, 0, 1])}
        elif x < 0.53 and not deleted:
            a = {'do': 'delete'}
            deleted = True
        elif x < 0.56:
            a = {'do': 'restart'}
        else:
            a = gen_foreign(r, deleted)
        if a.get('do') == 'delete' or (a.get('interleave') or {}).get('do') == 'delete':
            deleted = True
        actions.append(a)
    actions += [{'do': 'cycle'}] * 3 + ([] if deleted and r.random() < 0.5 else [{'do': 'delete'}]) + [{'do': 'cycle'}] * 5
    return {'variant': variant, 'scripts': scripts, 'labelled': r.random() < 0.7, 'foreign': r.choice([[], [], ['example.com/a'], ['b.io/keep', 'example.com/a']]),
            'actions': actions}


def gen_foreign(r: Any, deleted: bool) -> dict:
    x = r.random()
    if x < 0.3:
        return {'do': 'foreign_add', 'name': r.choice(['example.com/a', 'b.io/keep']), 'at': r.randrange(3)}
    if x < 0.5:
        return {'do': 'foreign_del', 'name': r.choice(['example.com/a', 'b.io/keep'])}
    if x < 0.7:
        return {'do': 'label', 'on': r.random() < 0.5}
    if x < 0.9 or deleted:
        return {'do': 'spec', 'value': r.randrange(1, 1000)}
    return {'do': 'delete'}


def run_scenario(env: m.Env, sc: dict) -> World:
    scripts = {tuple(k.split(':')): v for k, v in sc['scripts'].items()}
    w = World(env, sc['variant'], scripts, sc['labelled'], sc['foreign'])
    for a in sc['actions']:
        if a['do'] == 'cycle':
            if a.get('inconsistent'):
                w.consistency_time = w.loop.time() + 5       # a version is awaited; new events have arrived (pressure set)
            w.cycle(a.get('interleave'))
        elif a['do'] == 'restart':
            w.restart()
        else:
            w.foreign_action(a)
    return w


def monitors(ctx: fw.Ctx, sc: dict, w: World) -> None:
    """The property text on what the real server saw (the harness's own reading)."""
    case = {'layer': 'function', 'what': 'trace', 'scenario': sc, 'log': w.readable}
    for q in w.writes:
        if q['tested'] is None or q['tested'].get('op') != 'test' or q['tested'].get('path') != '/metadata/resourceVersion':
            ctx.fail('finalizer edit sent without the resourceVersion precondition', {**case, 'write': q}, sig='fn-no-test-op')
        if q['status'] == 422 and q['adds_own'] and q['deleting']:
            ctx.count('c06_fn_requests', 'add-while-deleting-refused')
        if q['status'] != 200:
            ctx.count('c06_fn_requests', f'json:{q["status"]}')
            continue
        fb, fa = q['before'], q['after']
        ctx.count('c06_fn_requests', 'json:200:' + ('release' if FIN in fb and FIN not in fa else 'add' if FIN in fa and FIN not in fb else 'other'))
        if [x for x in fa if x != FIN] != [x for x in fb if x != FIN]:
            ctx.fail('a framework write added, dropped or reordered finalizers owned by others', {**case, 'write': q}, observed=fa, expected=fb,
                     sig='fn-foreign-finalizers')
        if fa.count(FIN) > 1:
            ctx.fail('the framework finalizer is duplicated', {**case, 'write': q}, observed=fa, sig='fn-finalizer-duplicated')
        if FIN in fa and FIN not in fb and q['deleting']:
            ctx.fail('finalizer added to an object already marked for deletion', {**case, 'write': q}, sig='fn-added-while-deleting')
        if FIN in fb and FIN not in fa and w.c_del and q['h_matches_now'] and not q['h_done']:
            ctx.fail('finalizer removed although a matching mandatory deletion handler has not finished',
                     {**case, 'write': q, 'handler': 'h', 'id_shared_with_other_cause': w.c_shared,
                      'filters_changed_between_decision_and_write': q['h_matched_at_decision'] != q['h_matches_now']},
                     observed=[c for c in w.calls if c['id'] == 'h'][-4:], sig='released-early-handler')
    early = any(FIN in q['before'] and q['after'] is not None and FIN not in q['after'] and q['status'] == 200 and w.c_del and q['h_matches_now']
                and not q['h_done'] for q in w.writes)
    for cf in w.cycle_facts:
        # added when a handler starts requiring the object: a cycle that sees a live, not deleting, not held object which H matches, with
        # nothing carried and nobody interfering, must leave it held
        if (w.c_del and cf['event'] != 'DELETED' and not cf['view_deleting'] and not cf['view_held'] and cf['view_h_matches'] and not cf['carried_before']
                and not cf['interfered'] and 422 not in cf['json_requests'] and cf['alive_after'] and not cf['held_after']):
            ctx.fail('a mandatory deletion handler matches the object but the finalizer is not added', {**case, 'cycle': cf}, sig='fn-never-added')
            break
    if w.c_del and not w.done and not early and w.srv.doc is None and w.gone_h_matched and w.delete_armed:
        ctx.fail('the object is gone although a matching mandatory deletion handler was never called', {**case, 'handler': 'h'},
                 observed=[c for c in w.calls if c['id'] == 'h'][-4:], sig='fn-gone-before-handler')
    if w.steady and not w.c_shared and any(FIN in q['before'] and q['after'] is not None and FIN not in q['after'] and q['status'] == 200
                                             and w.c_del and q['h_matches_now'] and not q['h_done'] for q in w.writes):
        ctx.correspondence_break('T:steady', {'detail': 'a steady history with unshared ids released the finalizer early: '
                                                         'C06_not_released_early_steady does not describe the implementation', 'case': case})
    doc = w.srv.doc
    if doc is not None and doc['metadata'].get('deletionTimestamp') and FIN in doc['metadata'].get('finalizers', []):
        ctx.fail('object marked for deletion keeps the framework finalizer after everything has finished', case,
                 observed=doc['metadata'], sig='fn-never-released')


def match_f601(f: dict) -> bool:
    """F601: a release decided while the deletion handler's filters did not match is carried over a 422 (or computed on
    the merge-patch response) and lands after an edit made them match again; ids are not shared (that is F8)."""
    c = f['case']
    return (f['sig'] in ('released-early-handler', 'released-early-daemon') and c.get('layer') == 'function' and not c.get('id_shared_with_other_cause')
            and bool(c.get('filters_changed_between_decision_and_write')))


def corpus_scenarios() -> list[dict]:
    out = []
    d = fw.ROOT / 'corpus' / 'C06'
    for p in sorted(d.glob('fn_*.json')):
        out.append(json.loads(p.read_text())['fn_scenario'])     # (not 'scenario'/'actions': those are history-level files)
    return out


def run(ctx: fw.Ctx, env: m.Env, n: int) -> list[fw.Case]:
    r = ctx.rng
    cases: list[fw.Case] = []
    seeded = corpus_scenarios()
    for i in range(n + len(seeded)):
        sc = seeded[i] if i < len(seeded) else gen_scenario(r, i)
        w = run_scenario(env, sc)
        monitors(ctx, sc, w)
        init = f'(fl_init {w.cfg()} {cq.clist(cq.cstr(x) for x in sc["foreign"])} {cq.cbool(sc["labelled"] if w.filtered else True)} false)'
        hist = cq.clist(f'({lab}, {ob if ob is not None else "None"})' for lab, ob in w.trace)
        term = f'fl_history_ok {w.cfg()} {init} {hist} && Bool.eqb (fl_history_steady {w.cfg()} {init} {hist}) {cq.cbool(w.steady)}'
        ctx.count('trace_guard', 'steady' if w.steady else 'not-steady')
        cases.append(fw.Case(term, {'layer': 'function', 'what': 'trace', 'scenario': sc, 'log': w.readable},
                             diag=f'fl_replay {w.cfg()} {init} {hist} 0'))
        ctx.cov['traces_validated_against_impl'] += 1
        ctx.count('trace_variant', sc['variant'])
        ctx.count('trace_cycles', 'inconsistent-view', sum(1 for a in sc['actions'] if a.get('inconsistent')))
        ctx.count('trace_cycles', 'plain', sum(1 for a in sc['actions'] if a['do'] == 'cycle' and not a.get('inconsistent')))
        ctx.count('trace_labels', 'total', len(w.trace))
        kinds = {json.dumps(x.get('requests')) for x in w.readable if x.get('do') == 'cycle'}
        for kd in kinds:
            ctx.count('trace_cycle_requests', kd)
        if any(x.get('do') == 'cycle' and any(q[1] == 422 for q in x['requests'] if q[0] != 'foreign') for x in w.readable):
            ctx.nontriv(['trace', sc])
    return cases
