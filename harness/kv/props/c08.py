"""C08 — accumulated patches are delivered completely, atomically and exactly once."""
from __future__ import annotations

from kv import cycle_monitors as cm, cycle_runner as cr, cycle_sim as cs, framework as fw

RULE = cr.RULE_HISTORY
MONITORS = [cm.mon_c08, cm.mon_c06]


def match_f6(f: dict) -> bool:
    """F6: merge-patches are addressed by name only; a delete-and-recreate under the same name between the
    computation and the write makes it land on the new object."""
    return f['sig'] == 'wrong-object' and bool((f.get('observed') or {}).get('computed_for')) \
        and (f['observed']['landed_on'] not in f['observed']['computed_for'])


def gen(r, i):
    sc = cs.gen_scenario(r, n_actions=12, daemons=False,
                         weights={'recreate': 1.5, 'conflict422': 2.5, 'foreign_fin_add': 1.5, 'delete': 1.5, 'kill_mid_patch': 1.0})
    if i % 2 == 0:
        sc['cfg']['status_subresource'] = True
    if i % 5 == 0:
        sc['cfg']['latency'] = 0.125
    return sc


def run(ctx: fw.Ctx) -> int:
    ctx.matchers = {'F6': match_f6}
    ctx.proofs()
    function_level(ctx)
    cr.run_histories(ctx, ctx.scale(350, 8000), [cm.mon_c08], gen=gen)
    return ctx.finish(RULE, level_note=['closed loop: real kopf.operator() against harness/kv/fakeapi.py'])


def function_level(ctx: fw.Ctx) -> None:
    try:
        from kv.props import c08_model
    except ImportError:
        ctx.correspondence_break('D:patch_obj', 'harness/kv/props/c08_model.py is missing')
        return
    c08_model.differential(ctx)


def replay(ctx: fw.Ctx, body: dict) -> bool:
    ctx.matchers = {'F6': match_f6}
    if 'scenario' not in (body.get('case') or {}):     # a function-level failing input: the model module replays it
        try:
            from kv.props import c08_model
        except ImportError:
            print('replay file carries no scenario and there is no function-level layer')
            return False
        return c08_model.replay(ctx, body)
    return cr.replay_scenario(ctx, body, [cm.mon_c08])
