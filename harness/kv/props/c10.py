"""C10 — timer schedule laws: no self-overlap, interval / sharp / idle / initial-delay timing.

Layers (DESIGN §8 C10):
  proof     coq/Props/C10.v over coq/Model/Timer.v (+ the await skeleton of _timer, Proofs/TimerAwaits.v)
  D-tie     the REAL daemons._timer coroutine driven under kv.vloop (c10_drive.py) on generated cases; the
            model must reproduce the cycle list (start, handler end, patch end, invoked, done), the list of
            every aiotime.sleep call (instant, delay, wake-up instant) and the final loop state
  monitors  the six laws evaluated directly on the recorded timestamps of the implementation
"""
from __future__ import annotations

import json
from typing import Any, Iterable

from kv import awaits, coqio as cq, framework as fw
from kv.props import c10_drive as drv

RULE = ('cases = (timer configuration interval/sharp/idle/initial_delay/retries/timeout/backoff/errors x script of '
        '(handler duration, patch latency, outcome) per cycle x instants of essential changes x stop instant x spawn '
        'instant), integer milliseconds in multiples of 125, generated from one PRNG plus a systematic sweep; '
        'non-trivial iff the real _timer performed >= 2 runs of the function, or >= 1 run and the stopper was set; '
        'distinct by the whole case after canonicalisation')

HEADER = fw.STD_HEADER + 'From KV Require Import Model.Timer.\n'
FUEL = 400
DEFAULT_BACKOFF = 60000


# ------------------------------------------------------------------------------------------
# encoding of a case / an observation as Coq terms
# ------------------------------------------------------------------------------------------
def c_oz(x: int | None) -> str:
    return 'None' if x is None else f'(Some {cq.cZ(x)})'


def c_cfg(cfg: dict) -> str:
    mode = {None: 'ETemporary', 'ignored': 'EIgnored', 'temporary': 'ETemporary', 'permanent': 'EPermanent'}[cfg.get('errors')]
    backoff = cfg.get('backoff') if cfg.get('backoff') is not None else DEFAULT_BACKOFF
    return (f"(mkcfg {c_oz(cfg.get('interval'))} {cq.cbool(bool(cfg.get('sharp')))} {c_oz(cfg.get('idle'))} "
            f"{c_oz(cfg.get('initial_delay'))} {c_oz(cfg.get('retries'))} {c_oz(cfg.get('timeout'))} {cq.cZ(backoff)} {mode})")


def c_out(oc: Any) -> str:
    if oc == 'ok':
        return 'OOk'
    if oc == 'perm':
        return 'OPerm'
    if oc == 'arb':
        return 'OArb'
    if oc[0] == 'child':
        return f'(OChild {c_oz(oc[1])})'
    return f'(OTemp {c_oz(oc[1])})'


def c_case(case: dict) -> str:
    env = (f"(mkenv {cq.cZ(case.get('irt0', 0))} {cq.clist(cq.cZ(r) for r in sorted(case.get('resets', [])))} "
           f"{c_oz(case.get('stop'))} {cq.cZ(case['horizon'])} {cq.clist(cq.cZ(r) for r in sorted(case.get('late', [])))})")
    script = cq.clist(f'(mkentry {cq.cZ(d)} {cq.cZ(p)} {c_out(o)})' for d, p, o in case['script'])
    return f"(timer_run {FUEL}%nat {c_cfg(case['cfg'])} {env} {cq.cZ(case.get('spawn', 0))} {script})"


FINALS = {'exited': 'FExited', 'stopped': 'FStopped', 'out': 'FOut', 'horizon': 'FHorizon', 'stall': 'FStall'}


def c_obs(obs: dict) -> tuple[str, str, str]:
    cyc = cq.clist(f'({cq.cZ(s)}, {cq.cZ(he)}, {cq.cZ(pe)}, {cq.cbool(inv)})' for s, he, pe, inv, _done in obs['cycles'])
    sl = cq.clist(f'({cq.cZ(t)}, {cq.cZ(d)}, {c_oz(w)})' for t, d, w in obs['sleeps'])
    kind, t, extra = obs['final']
    if kind in FINALS:
        fin = f'({FINALS[kind]} {cq.cZ(t)})'
    elif kind == 'crash' and extra == 'ZeroDivisionError':
        fin = f'(FCrash {cq.cZ(t)})'
    else:
        fin = '(FFuel (-1)%Z)'     # deadlock / runaway / unknown crash: nothing the model can produce
    return cyc, sl, fin


def d_case(case: dict, obs: dict) -> fw.Case:
    cyc, sl, fin = c_obs(obs)
    run = c_case(case)
    dones = cq.clist(cq.cbool(bool(c[4])) for c in obs['cycles'])
    alt = ''
    if obs['final'][0] == 'stopped':    # the coroutine returned with the stopper set: by `break` or by the loop condition
        alt = f' || run_matches {run} {cyc} {sl} (FExited {cq.cZ(obs["final"][1])})'
    term = (f'(run_matches {run} {cyc} {sl} {fin}{alt}) && '
            f'list_eqb Bool.eqb (map y_done (cycles (fst {run}))) {dones}')
    return fw.Case(term, {'case': case, 'observed': obs}, diag=run)


# ------------------------------------------------------------------------------------------
# monitors: the property text evaluated on the implementation's timestamps
# ------------------------------------------------------------------------------------------
def monitor(case: dict, obs: dict, tol: float = 0) -> list[tuple[str, str, Any, Any]]:
    """Returns failures (signature, what, observed, expected). `tol` > 0 for the float stream."""
    cfg = case['cfg']
    interval, idle, initial = cfg.get('interval'), cfg.get('idle'), cfg.get('initial_delay')
    sharp = bool(cfg.get('sharp'))
    backoff = cfg.get('backoff') if cfg.get('backoff') is not None else case.get('default_backoff', DEFAULT_BACKOFF)
    spawn = case.get('spawn', 0)
    changes = sorted([case.get('irt0', 0)] + list(case.get('resets', [])))
    late = sorted(case.get('late', []))     # essential changes that happened AFTER the timer's step of their instant
    script = case['script']
    cyc = obs['cycles']
    out: list[tuple[str, str, Any, Any]] = []

    def last_change(t: float) -> float:
        past = [r for r in changes if r <= t + tol] + [r for r in late if r < t - tol]
        return max(past) if past else changes[0]

    def clear(t: float) -> bool:
        return idle is None or t - last_change(t) >= idle - tol

    def check_next_start(sig: str, what: str, base: float, start: float, k: int) -> None:
        """`start` must be the first instant >= base that is not within the idle time of the last change."""
        if start < base - tol:
            out.append((sig + '-early', f'{what}: run {k + 1} starts before it is due', start, f'>= {base}'))
            return
        if not clear(start):
            return  # reported by the idle law itself
        cands = [base] + [r + idle for r in changes + late] if idle is not None else [base]
        for x in sorted(cands):
            if base - tol <= x < start - tol and clear(x):
                out.append((sig + '-late', f'{what}: run {k + 1} starts later than idling explains', start, x))
                return

    runs = [(i, c) for i, c in enumerate(cyc) if c[3]]
    # law 1: a timer never overlaps with itself
    for (i, a), (j, b) in zip(runs, runs[1:]):
        if b[0] < a[2] - tol:
            out.append(('overlap', f'run of cycle {j} starts before the run of cycle {i} (incl. its patch) ended', b[0], f'>= {a[2]}'))
    for i, c in runs:
        if c[1] < c[0] - tol or c[2] < c[1] - tol:
            out.append(('overlap', f'cycle {i}: end before start', c, None))

    for k in range(len(cyc) - 1):
        a, b = cyc[k], cyc[k + 1]
        if not (a[3] and b[3]):
            continue            # strict-check cycles (function not entered) belong to C11
        oc = script[k][2]
        done = a[4]
        if done and oc == 'ok':
            # laws 2/3: after a successful run
            if interval is not None:
                if sharp:
                    if interval <= 0:
                        continue
                    passed = a[2] - a[0]
                    # first grid point strictly after the end; with a float tolerance an end ON a grid point
                    # (within tol) may count as either side
                    ms_ = sorted({int((passed - tol) // interval) + 1, int((passed + tol) // interval) + 1})
                    trials = []
                    for m in ms_:
                        mark = len(out)
                        check_next_start('after-success-sharp', 'sharp grid counted from the previous start', a[0] + m * interval, b[0], k)
                        trials.append(out[mark:])
                        del out[mark:]
                    out.extend(min(trials, key=len))
                else:
                    check_next_start('after-success-interval', 'one interval after the previous end', a[2] + max(0, interval), b[0], k)
            elif idle is not None:
                if b[0] < a[2] - tol or not (any(a[0] < r <= b[0] + tol for r in case.get('resets', [])) or any(a[0] < r < b[0] for r in late)):
                    out.append(('idle-only', f'idle-only timer: run {k + 1} without an essential change after run {k} started', b[0], None))
            else:
                out.append(('one-shot', 'timer with neither interval nor idle ran again after a finished run', b[0], None))
        elif not done and oc != 'ok':
            # law 4: after a failed run (to be retried): the error's delay or the handler's backoff, not the interval
            if oc == 'arb':
                d = backoff
            else:
                d = oc[1] if oc[1] is not None else 0
            if b[0] < a[1] + d - tol:
                out.append(('after-failure-early', f'run {k + 1} starts before the delay/backoff of the failed run {k} elapsed',
                            b[0], f'>= {a[1] + d}'))
            else:
                check_next_start('after-failure', 'delay/backoff after the failed run', max(a[2], a[1] + d), b[0], k)
        # done and oc != 'ok': an ignored error counts as finished; a final failure must never be followed by a run (below).

    # after a failure for good (PermanentError, retries/timeout exhausted, strict checks) the function is never entered again
    errors = cfg.get('errors')
    for k, c in enumerate(cyc):
        oc = script[k][2]
        succeeded = c[3] and (oc == 'ok' or (oc == 'arb' and errors == 'ignored'))
        if c[4] and not succeeded:
            later = [j for j in range(k + 1, len(cyc)) if cyc[j][3]]
            if later:
                out.append(('run-after-final-failure', f'the function is entered again (cycle {later[0]}) after the timer failed for good in cycle {k}',
                            cyc[later[0]][0], 'no further run'))
            break
    # a due run is MADE: the first cycle and every cycle after a success enters the function, however long idling
    # postponed it (the handler's timeout must not count the idle wait: finding F1001, /repo 071710e) -- unless the
    # handler is declared with timeout <= 0 or retries <= 0
    if (cfg.get('timeout') is None or cfg['timeout'] > 0) and (cfg.get('retries') is None or cfg['retries'] > 0):
        for k, c in enumerate(cyc):
            prev_ok = k == 0 or (cyc[k - 1][3] and cyc[k - 1][4] and
                                 (script[k - 1][2] == 'ok' or (script[k - 1][2] == 'arb' and errors == 'ignored')))
            if prev_ok and not c[3]:
                out.append(('due-run-not-made', f'cycle {k} is due with a fresh handler state but the function is not entered '
                            '(timed out / out of retries without a single call)', c, 'the function is entered'))
                break
    # a timer must not spin without suspending once its stopper is set (it blocks the whole event loop)
    if obs['final'][0] == 'stall' and case.get('stop') is not None and obs['final'][1] >= case['stop'] - tol:
        out.append(('stall-under-stop', 'the timer loops without ever suspending after its stopper was set', obs['final'], 'the task ends'))

    # law 5: the first run is not earlier than the initial delay
    if initial is not None:
        for i, c in runs:
            if c[0] < spawn + initial - tol:
                out.append(('initial-delay', f'run of cycle {i} starts before spawn + initial_delay', c[0], f'>= {spawn + initial}'))
    if cyc:
        check_next_start('first-run', 'first run after spawn + initial_delay', spawn + max(0, initial or 0), cyc[0][0], -1)
    # law 6: no run starts within the idle time after the last essential change
    if idle is not None:
        for i, c in runs:
            if not clear(c[0]):
                out.append(('idle', f'run of cycle {i} starts within the idle time after the last essential change',
                            c[0], f'>= {last_change(c[0]) + idle}'))
    # one-shot timers end after the finished run
    if interval is None and idle is None:
        fin = [i for i, c in enumerate(cyc) if c[4]]
        if fin and (fin[0] != len(cyc) - 1 or obs['final'][0] not in ('exited', 'stopped')):
            out.append(('one-shot', 'timer with neither interval nor idle did not end after its finished run', obs['final'], 'exited'))
    return out


def monitor_race(case: dict, obs: dict) -> list[tuple[str, str, Any, Any]]:
    """Race stream: essential changes injected between two loop iterations of one instant.  Order within an
    instant is the order of occurrence: a run entered AFTER the change (same instant or later, but sooner than
    `idle`) violates the idle law; a run entered before it does not."""
    idle = case['cfg'].get('idle')
    out: list[tuple[str, str, Any, Any]] = []
    if idle is None:
        return out
    for t, seq, _steps in obs['late']:
        for hs, eseq in obs['entries']:
            if (hs == t and eseq > seq) or (t < hs < t + idle):
                out.append(('idle-race', 'run entered within the idle time after an essential change that happened earlier '
                            'in the same instant (a suspension point between the idle check and the invocation?)',
                            {'entered_at': hs, 'change_at': t}, f'>= {t + idle}'))
    return out


# ------------------------------------------------------------------------------------------
# generators
# ------------------------------------------------------------------------------------------
DURS = [0, 0, 125, 250, 500, 1000, 1500, 2500, 3000, 7500]
PLATS = [0, 0, 0, 125, 500]


def gen_cfg(r: Any) -> dict:
    shape = r.randrange(10)
    interval = r.choice([None, 1000, 2500, 500]) if shape else r.choice([0, 125])
    return {
        'interval': interval,
        'sharp': r.choice([None, False, True, True]),
        'idle': r.choice([None, None, 1000, 4000, 500]),
        'initial_delay': r.choice([None, None, 0, 3000, 375]),
        'retries': r.choice([None, None, None, 0, 1, 2, 3]),
        'timeout': r.choice([None, None, None, 0, 1000, 5000]),
        'backoff': r.choice([None, 250, 1000, 1000]),
        'errors': r.choice([None, None, 'ignored', 'temporary', 'permanent']),
    }


def gen_outcome(r: Any, failing: float) -> Any:
    if r.random() >= failing:
        return 'ok'
    return r.choice([['temp', None], ['temp', 0], ['temp', 125], ['temp', 500], ['temp', 2000], 'perm', 'arb', 'arb',
                     ['child', None], ['child', 250], ['child', 1500]])


def gen_case(r: Any) -> dict:
    cfg = gen_cfg(r)
    failing = r.choice([0.0, 0.2, 0.5])
    n = r.choice([1, 2, 3, 4, 5, 6, 8])
    interval = cfg['interval'] or 1000
    durs = DURS + [interval, 2 * interval, 3 * interval, interval - 125, interval + 125]
    script = [[max(0, r.choice(durs)), r.choice(PLATS), gen_outcome(r, failing)] for _ in range(n)]
    resets = sorted(125 * r.randrange(0, 120) for _ in range(r.choice([0, 0, 1, 2, 3, 4])))
    stop = 125 * r.randrange(0, 160) if r.random() < 0.35 else None
    spawn = r.choice([0, 0, 0, 1000, 2625])
    late = sorted(125 * r.randrange(0, 120) for _ in range(r.choice([0, 0, 0, 1, 2])))
    # every essential change reaches the operator as a watch event (ADDED/MODIFIED) or only through a (re-)listing
    # (type None: edited while the watch stream was down); non-essential events (status/resourceVersion only) too
    etypes = [r.choice([None, None, 'MODIFIED', 'MODIFIED', 'ADDED']) for _ in range(r.choice([1, 2, 3, 5]))]
    noise = sorted(125 * r.randrange(0, 120) for _ in range(r.choice([0, 0, 1, 2, 4])))
    return {'cfg': cfg, 'script': script, 'resets': resets, 'late': late, 'noise': noise, 'etypes': etypes, 'stop': stop,
            'irt0': 0, 'spawn': spawn, 'horizon': 40000}


def coincide(r: Any, case: dict) -> dict:
    """Second pass: place essential changes EXACTLY on instants at which the timer acted in a first pass (run start,
    patch end, wake-up from a sleep), as early (before the timer's step) or late (after it) changes."""
    obs = drv.drive(case)
    instants = sorted({c[0] for c in obs['cycles']} | {c[2] for c in obs['cycles']} | {w for _, _, w in obs['sleeps'] if w is not None})
    if not instants:
        return case
    case = dict(case, resets=list(case['resets']), late=list(case.get('late', [])))
    for _ in range(r.choice([1, 1, 2])):
        t = r.choice(instants)
        (case['late'] if r.random() < 0.6 else case['resets']).append(t)
    case['resets'].sort()
    case['late'].sort()
    return case


def sweep_cases() -> Iterable[dict]:
    """The design's bounded product: interval x sharp x idle x initial_delay x uniform durations x outcome pattern x resets."""
    for interval in (None, 1000, 2500):
        for sharp in (False, True):
            if interval is None and sharp:
                continue
            for idle in (None, 1000, 4000):
                for initial in (None, 0, 3000):
                    base = interval or 1000
                    for dur in (0, 125, base // 2, base - 125, base, base + 125, 2 * base, 3 * base):
                        for pat in (('ok',) * 4, ('ok', ['temp', 500], 'ok', 'ok'), ('arb', 'ok', 'perm', 'ok'), (['temp', None], 'ok', 'ok', 'ok')):
                            for resets in ((), (base,), (375, 3 * base + 125, 3 * base + 250)):
                                yield {'cfg': {'interval': interval, 'sharp': sharp, 'idle': idle, 'initial_delay': initial,
                                               'retries': None, 'timeout': None, 'backoff': 250, 'errors': None},
                                       'script': [[dur, 125 if i == 1 else 0, o] for i, o in enumerate(pat)],
                                       'resets': list(resets), 'stop': None, 'irt0': 0, 'spawn': 0, 'horizon': 40000}


CORPUS: list[dict] = [
    # sharp, handler longer than the interval; patch latency counted in the passed time
    {'cfg': {'interval': 1000, 'sharp': True}, 'script': [[250, 125, 'ok'], [1500, 0, 'ok'], [1000, 0, 'ok'], [0, 0, 'ok']]},
    # idle + interval with changes during the idle wait
    {'cfg': {'interval': 1000, 'idle': 2000}, 'script': [[250, 125, 'ok'], [250, 0, 'ok'], [0, 0, 'ok']], 'resets': [500, 2500, 2625]},
    # idle-only: waits for the next change, polling every `idle`
    {'cfg': {'idle': 2000}, 'script': [[250, 125, 'ok'], [250, 0, 'ok'], [0, 0, 'ok']], 'resets': [500, 6125, 9000]},
    # idle-only under a set stopper: the wait must end and the task exit (fixed in /repo ba077d7; a stall is a violation)
    {'cfg': {'idle': 2000}, 'script': [[250, 125, 'ok'], [250, 0, 'ok']], 'resets': [500], 'stop': 4000},
    # errors: delay of TemporaryError, backoff of an arbitrary error, then retries exhausted: never invoked again (/repo e01f313)
    {'cfg': {'interval': 1000, 'initial_delay': 3000, 'retries': 2, 'backoff': 250},
     'script': [[250, 125, 'arb'], [250, 0, 'arb'], [0, 0, 'arb'], [0, 0, 'perm'], [0, 0, 'ok']], 'resets': [500], 'stop': 7000},
    # one-shot with a retry
    {'cfg': {}, 'script': [[250, 125, ['temp', 500]], [250, 0, 'ok'], [0, 0, 'ok']]},
    # sharp with interval 0: ZeroDivisionError ends the timer task
    {'cfg': {'interval': 0, 'sharp': True}, 'script': [[250, 125, 'ok'], [0, 0, 'ok']]},
    # strict timeout check: the function is never entered
    {'cfg': {'interval': 1000, 'timeout': 0}, 'script': [[250, 125, 'ok']] * 3},
    # stop during the initial delay; stop while the function runs
    {'cfg': {'interval': 1000, 'initial_delay': 3000}, 'script': [[250, 0, 'ok']], 'stop': 1000},
    {'cfg': {'interval': 1000, 'sharp': True}, 'script': [[2500, 0, 'ok'], [0, 0, 'ok']], 'stop': 1125},
    # an essential change at the very instant a run starts: LATE (after the timer's step: the run happens, the next one
    # is postponed) vs EARLY (before it: this run is postponed)
    {'cfg': {'interval': 1000, 'idle': 2000}, 'script': [[125, 0, 'ok']] * 3, 'irt0': -10000, 'late': [1125]},
    {'cfg': {'interval': 1000, 'idle': 2000}, 'script': [[125, 0, 'ok']] * 3, 'irt0': -10000, 'resets': [1125]},
    # HandlerChildrenRetry: retried after its own delay, no look-ahead checks although retries=1 / timeout are set
    {'cfg': {'interval': 1000, 'retries': 1, 'timeout': 100}, 'script': [[250, 0, ['child', 500]], [0, 0, ['child', None]], [0, 0, 'ok'], [0, 0, 'ok']]},
    # an essential change that reaches the operator only through a re-listing (type None) postpones the run like any other
    {'cfg': {'interval': 1000, 'idle': 2000}, 'script': [[125, 0, 'ok']] * 3, 'irt0': -10000, 'resets': [1000], 'etypes': [None]},
    {'cfg': {'idle': 2000}, 'script': [[125, 0, 'ok']] * 3, 'irt0': -10000, 'resets': [1000, 5000], 'noise': [500, 1500, 4000],
     'etypes': [None, 'MODIFIED', None]},
    # regression for finding F1001 (fixed in /repo 071710e): the idle wait must not count towards the handler's timeout
    {'cfg': {'interval': 1000, 'idle': 4000, 'timeout': 1000}, 'script': [[125, 0, 'ok']] * 3},
    {'cfg': {'interval': 1000, 'idle': 2000, 'timeout': 1000}, 'script': [[125, 0, 'ok']] * 3, 'irt0': -10000, 'resets': [1000]},
    # degenerate numbers (Python's float % has the sign of the divisor, as Z.modulo has; sleep(<=0) does not suspend)
    {'cfg': {'idle': 0}, 'script': [[125, 0, 'ok'], [0, 0, 'ok']]},
    {'cfg': {'idle': -500, 'interval': 1000, 'initial_delay': -5}, 'script': [[125, 0, 'ok'], [0, 0, 'ok']]},
    {'cfg': {'interval': -1000, 'sharp': True}, 'script': [[125, 0, 'ok'], [375, 0, 'ok'], [0, 0, 'ok']]},
    {'cfg': {'interval': -1000}, 'script': [[125, 0, 'ok'], [375, 0, 'ok'], [0, 0, 'ok']]},
]


def norm_case(c: dict) -> dict:
    cfg = {'interval': None, 'sharp': None, 'idle': None, 'initial_delay': None, 'retries': None, 'timeout': None,
           'backoff': None, 'errors': None}
    cfg.update(c.get('cfg', {}))
    return {'cfg': cfg, 'script': [list(e) for e in c['script']], 'resets': sorted(c.get('resets', [])),
            'late': sorted(c.get('late', [])), 'noise': sorted(c.get('noise', [])), 'etypes': c.get('etypes') or ['MODIFIED'],
            'stop': c.get('stop'),
            'irt0': c.get('irt0', 0), 'spawn': c.get('spawn', 0), 'horizon': c.get('horizon', 40000)}


def gen_float_case(r: Any) -> dict:
    """Non-dyadic times in seconds (monitor-only stream; 1 microsecond tolerance)."""
    interval = r.choice([0.1, 0.3, 0.7, 1.1])
    return {'cfg': {'interval': interval, 'sharp': r.choice([False, True]), 'idle': r.choice([None, 0.25, 1.3]),
                    'initial_delay': r.choice([None, 0.05, 0.9]), 'retries': None, 'timeout': None,
                    'backoff': r.choice([0.2, 0.33]), 'errors': None},
            'script': [[r.choice([0, 0.01, 0.05, interval, interval * 1.5, interval * 3.1]), r.choice([0, 0, 0.02]),
                        r.choice(['ok', 'ok', 'ok', ['temp', 0.15], 'arb'])] for _ in range(r.choice([3, 5, 8]))],
            'resets': sorted(round(r.uniform(0, 6), 3) for _ in range(r.choice([0, 1, 3]))),
            'stop': None, 'irt0': 0, 'spawn': 0, 'horizon': 60.0, 'default_backoff': 60.0}


# ------------------------------------------------------------------------------------------
def check_case(ctx: fw.Ctx, case: dict, D: list[fw.Case], stats: bool = True) -> list:
    obs = drv.drive(case)
    ctx.cov['traces_validated_against_impl'] += 1
    D.append(d_case(case, obs))
    fails = monitor(case, obs)
    for evtype, essential, flag in obs.get('reset_flags', []):
        if stats:
            ctx.count('event_feed', f'type={evtype} essential={essential} -> reset={flag}')
        if flag != essential:
            fails.append(('reset-flag', f'a {evtype!r} event with an {"" if essential else "un"}changed essence '
                          f'{"does not reset" if essential else "resets"} the idle time (processing._detect_causes)',
                          flag, essential))
    for sig, what, observed, expected in fails:
        ctx.fail(what, case, observed=observed, expected=expected, sig=sig)
    if stats:
        cfg = case['cfg']
        nruns = sum(1 for c in obs['cycles'] if c[3])
        ctx.count('final', obs['final'][0])
        ctx.count('runs', str(min(nruns, 8)))
        ctx.count('config', ('interval' if cfg['interval'] is not None else 'nointerval') + ('+sharp' if cfg['sharp'] and cfg['interval'] is not None else '')
                  + ('+idle' if cfg['idle'] is not None else '') + ('+initial' if cfg['initial_delay'] is not None else ''))
        for k, c in enumerate(obs['cycles']):
            if not c[3]:
                ctx.count('post_branch', 'function-not-entered (strict check)')
            if not c[4]:
                ctx.count('post_branch', 'retry: sleep(state.delays)')
            elif cfg['interval'] is not None and cfg['sharp']:
                ctx.count('post_branch', 'sharp remainder')
                d = case['script'][k][0]
                ctx.count('duration_vs_interval', 'shorter' if d < cfg['interval'] else 'equal' if d == cfg['interval'] else 'longer')
            elif cfg['interval'] is not None:
                ctx.count('post_branch', 'interval')
                d = case['script'][k][0]
                ctx.count('duration_vs_interval', 'shorter' if d < cfg['interval'] else 'equal' if d == cfg['interval'] else 'longer')
            elif cfg['idle'] is not None:
                ctx.count('post_branch', 'idle-only wait')
            else:
                ctx.count('post_branch', 'break (one-shot)')
            if c[4] and case['script'][k][2] != 'ok' and c[3]:
                ctx.count('outcomes', 'ignored error' if (case['script'][k][2] == 'arb' and cfg['errors'] == 'ignored') else 'final failure (no run may follow)')
        if obs['final'][0] == 'stall':
            ctx.count('outcomes', 'idle-only wait with idle<=0 never suspends (no stopper set)')
        allch = case['resets'] + case.get('late', [])
        starts = {c[0] for c in obs['cycles']}
        wakes = {w for _, _, w in obs['sleeps'] if w is not None} | {c[2] for c in obs['cycles']}
        for kind, lst in (('early', case['resets']), ('late', case.get('late', []))):
            for r_ in lst:
                ctx.count('change_position', f'{kind} change ' + ('exactly at a cycle start' if r_ in starts else
                          'exactly at a wake-up / patch end' if r_ in wakes else 'between the timer\'s steps'))
        for k, c in enumerate(obs['cycles']):
            if c[3]:
                o = case['script'][k][2]
                ctx.count('outcome_kind', o if isinstance(o, str) else o[0] + ('(delay=None)' if o[1] is None else '(delay)'))
        if any(a[0] < r <= a[1] for a in obs['cycles'] for r in allch):
            ctx.count('schedule', 'essential change while the function runs')
        if any(t < r <= w for t, d, w in obs['sleeps'] if w is not None for r in allch):
            ctx.count('schedule', 'essential change during a sleep')
        if case['stop'] is not None:
            ctx.count('schedule', 'stopper set')
        if nruns >= 2 or (nruns >= 1 and case['stop'] is not None):
            ctx.nontriv(case)
        if nruns >= 2:
            ctx.sample({'case': case, 'cycles': obs['cycles'], 'final': obs['final']})
    return fails


def reset_table(ctx: fw.Ctx, only: dict | None = None) -> list[fw.Case]:
    """D + monitor on the REAL processing._detect_causes: SpawningCause.reset over raw event type x last-handled essence
    present or not (first sight) x essence changed or not x non-essential noise, against the rule
    'reset iff there is no last-handled essence or the essence differs from it' (Model: reset_flag)."""
    from kopf._cogs.configs import configuration
    from kopf._cogs.structs import bodies, patches, references
    from kopf._core.engines import indexing
    from kopf._core.intents import registries
    from kopf._core.reactor import inventory, processing
    from kv import vloop
    out: list[fw.Case] = []
    loop = vloop.new_loop(0.0)
    try:
        with vloop.running(loop):
            settings = configuration.OperatorSettings()
            resource = references.Resource(group='kopf.dev', version='v1', plural='kopfexamples')
            handler = drv.make_handler({'interval': 1000, 'idle': 1000}, lambda **_: None)
            registry = registries.OperatorRegistry()
            registry._spawning.append(handler)
            for evtype in (None, 'ADDED', 'MODIFIED', 'DELETED'):
                for has_base in (False, True):
                    for changed in (False, True):
                        for noise in (False, True):
                            for field in ('spec', 'labels'):
                                if only is not None and (only.get('event_type'), only.get('has_last_handled'), only.get('essence_changed'),
                                                         only.get('noise'), only.get('changed_field')) != (evtype, has_base, changed, noise, field):
                                    continue
                                old = {'metadata': {'name': 'o', 'namespace': 'ns', 'uid': 'u', 'resourceVersion': '1', 'labels': {'a': 'x'}},
                                       'spec': {'n': 1}, 'status': {'s': 1}}
                                b0 = bodies.Body(old)
                                ann: dict = {}
                                if has_base:
                                    p = patches.Patch({})
                                    settings.persistence.diffbase_storage.store(
                                        body=b0, patch=p, essence=settings.persistence.diffbase_storage.build(body=b0, extra_fields=set()))
                                    ann = dict(p['metadata']['annotations'])
                                new = json.loads(json.dumps(old))
                                new['metadata']['annotations'] = ann
                                if changed:
                                    if field == 'spec':
                                        new['spec']['n'] = 2
                                    else:
                                        new['metadata']['labels']['a'] = 'y'
                                if noise:
                                    new['status']['s'] = 2
                                    new['metadata']['resourceVersion'] = '2'
                                    new['metadata']['generation'] = 7
                                found = processing._detect_causes(
                                    indexers=indexing.OperatorIndexers(), registry=registry, settings=settings, resource=resource,
                                    raw_event={'type': evtype, 'object': new}, body=bodies.Body(new), patch=patches.Patch({}),
                                    memory=inventory.ResourceMemory(), local_logger=drv._LOG, event_logger=drv._LOG)
                                flag = bool(found[1].reset)
                                data = {'event_type': evtype, 'has_last_handled': has_base, 'essence_changed': changed,
                                        'changed_field': field, 'noise': noise, 'reset': flag}
                                ctx.count('reset_table', f'type={evtype} base={has_base} changed={changed} -> {flag}')
                                expected = (not has_base) or changed
                                if flag != expected:
                                    ctx.fail('SpawningCause.reset differs from "the essence differs from the last-handled one": an essential change '
                                             'would not (or a non-essential one would) reset the timers\' idle time', data,
                                             observed=flag, expected=expected, sig='reset-flag')
                                out.append(fw.Case(f'Bool.eqb (reset_flag {cq.cbool(has_base)} {cq.cbool(changed)}) {cq.cbool(flag)}', data,
                                                   diag=f'reset_flag {cq.cbool(has_base)} {cq.cbool(changed)}'))
    finally:
        vloop.close_loop(loop)
    return out


def run(ctx: fw.Ctx) -> int:
    ctx.matchers = {}
    ctx.proofs(gen=awaits.generate)
    ok, logtxt = fw.build_models(['Model/Timer.v'])
    if not ok:
        ctx.correspondence_break('model build', logtxt[-1500:])
        return ctx.finish(RULE)

    D: list[fw.Case] = []
    for c in CORPUS:
        check_case(ctx, norm_case(c), D)
    corpus_dir = fw.ROOT / 'corpus' / 'C10'
    if corpus_dir.is_dir():
        for p in sorted(corpus_dir.glob('*.json')):
            check_case(ctx, norm_case(json.loads(p.read_text())), D)

    n = ctx.scale(2400, 40000)
    for _ in range(n):
        case = gen_case(ctx.rng)
        if ctx.rng.random() < 0.3:
            case = coincide(ctx.rng, case)
        check_case(ctx, case, D)
    if ctx.thorough:
        for c in sweep_cases():
            check_case(ctx, norm_case(c), D)
    else:
        sw = list(sweep_cases())
        for c in ctx.rng.sample(sw, 400):
            check_case(ctx, norm_case(c), D)
    ctx.differential('timer', HEADER, D, shard=150)
    ctx.differential('reset', HEADER, reset_table(ctx), shard=150)

    # race stream (monitor only): re-run cases with idling, injecting an essential change k loop iterations
    # into the very instant at which a run started in the first pass
    nr = ctx.scale(60, 600)
    tried = 0
    for _ in range(nr * 20):
        if tried >= nr:
            break
        case = gen_case(ctx.rng)
        if case['cfg']['idle'] is None or case['cfg']['timeout'] is not None or case['cfg']['retries'] is not None:
            continue
        obs = drv.drive(case)
        starts = sorted({c[0] for c in obs['cycles'] if c[3]})
        if not starts:
            continue
        tried += 1
        for k in (1, 2, 3, 4):
            rc = {**case, 'late_resets': [[ctx.rng.choice(starts), k]]}
            robs = drv.drive(rc)
            ctx.count('race_stream', f'k={k}:' + ('change-before-entry' if any(hs == t and es > sq for t, sq, _ in robs['late'] for hs, es in robs['entries'])
                                                   else 'change-after-entry' if any(hs == t for t, sq, _ in robs['late'] for hs, es in robs['entries']) else 'run-postponed'))
            for sig, what, observed, expected in monitor_race(rc, robs):
                ctx.fail(what, rc, observed=observed, expected=expected, sig=sig)

    # monitor-only float stream (non-dyadic intervals; outside the model)
    nf = ctx.scale(300, 4000)
    for _ in range(nf):
        case = gen_float_case(ctx.rng)
        obs = drv.drive(case, float_mode=True)
        ctx.count('float_stream', obs['final'][0])
        for sig, what, observed, expected in monitor(case, obs, tol=1e-6):
            ctx.fail(what, {'float': True, **case}, observed=observed, expected=expected, sig='float:' + sig)

    return ctx.finish(RULE, level_note=[
        'user function and patching call are oracles (script of duration, latency, outcome per cycle); CPython 3.12 asyncio '
        '(wait_for, Event, call_at) under kv.vloop; simultaneous inputs are applied before the loop callbacks of that instant',
        'await skeleton of daemons._timer extracted by harness/kv/awaits.py and proved equal to the literal in Proofs/TimerAwaits.v'])


def replay(ctx: fw.Ctx, body: dict) -> bool:
    case = body.get('case')
    if isinstance(case, dict) and 'essence_changed' in case:
        reset_table(ctx, only=case)
        return bool(ctx.failures)
    if not isinstance(case, dict) or 'script' not in case:
        return False
    if case.get('float'):
        obs = drv.drive(case, float_mode=True)
        return bool(monitor(case, obs, tol=1e-6))
    late = case.get('late_resets')
    case = norm_case(case)
    if late:
        case['late_resets'] = late
        return bool(monitor_race(case, drv.drive(case)))
    obs = drv.drive(case)
    return bool(monitor(case, obs))
