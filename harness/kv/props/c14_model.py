"""C14, function level — the per-object memory flags that decide about resume handlers.

Layers (DESIGN.md §8 C14; model coq/Model/Resume.v, theorems coq/Props/C14.v):
  D:resume_key      real ResourceMemories._build_key / recall / forget on well- and malformed bodies, the
                    container kept across operations (flag only on creation, ephemeral, forget, errors)
  D:resume_detect   real causes.detect_changing_cause over its whole atom table
  D:resume_decl     kopf.on.resume/create/update/delete -> (reason, initial, deleted)
  D:resume_select   real ChangingRegistry.get_handlers on registries built with the decorators, every cause
  D:resume_step     real processing.process_resource_event (recall/forget, _detect_causes, process_resource_causes,
                    process_changing_cause, execution, progression, real storages), one ResourceMemories per
                    operator process kept across the events of several objects; only application.apply is
                    replaced (the patch is applied to the harness's server-side object instead of an API call)
  D:resume_trace    the same histories as label lists through rs_exec (restarts = fresh memories)
  D:resume_cycle    the composed model (Model/ResumeCycle.v: flags + the C02 pipeline of Model/Progress.v on the concrete
                    progress records): every step of every history, lifecycles all_at_once / one_by_one / asap — memories,
                    cause, selection, invoked (id, retry), fully_handled_once and the records on the object after the patch
                    (resume_step / resume_trace, whose model abstracts the execution, only for all_at_once histories)
  monitors          the property text on what the real code did in those histories (the harness's own reading
                    of the server-side objects): at most one successful run per (process, object, resume
                    handler); none for objects first seen by a watch event, for never-handled objects, for
                    deleting objects without opt-in; every matching resume handler runs in the first handling
                    cycle of a pre-existing handled object; `initial` never comes back.
"""
from __future__ import annotations

import asyncio
import copy
import datetime
import itertools
import json
import logging
from typing import Any

from kv import canon, clock, coqio as cq, framework as fw, vloop

HEADER = fw.STD_HEADER + 'From KV Require Import Base.Dicts Model.Resume.\n'
HEADER_RC = fw.STD_HEADER + 'From KV Require Import Base.Dicts Model.Resume Model.Progress Model.ResumeCycle.\n'

FIN = 'kopf.zalando.org/KopfFinalizerMarker'
CEV = {None: 'EListed', 'ADDED': 'EAdded', 'MODIFIED': 'EModified', 'DELETED': 'EDeleted'}
CR = {'create': 'RsCreate', 'update': 'RsUpdate', 'delete': 'RsDelete', 'resume': 'RsResume', 'noop': 'RsNoop',
      'free': 'RsFree', 'gone': 'RsGone'}
REASONS = list(CR)
COUT = {'ok': 'OSuccess', 'perm': 'OPermanent', 'tmp': 'OTemporary'}
CPROG = {'none': 'PNone', 'open': 'POpen', 'finished': 'PFinished'}
TMP_DELAY = 10


def cob(x: Any) -> str:
    return 'None' if x is None else f'(Some {cq.cbool(bool(x))})'


def coreason(x: Any) -> str:
    return 'None' if x is None else f'(Some {CR[str(x)]})'


def cmem(noticed: bool, handled: bool) -> str:
    return f'{{| rs_noticed := {cq.cbool(noticed)}; rs_handled := {cq.cbool(handled)} |}}'


def cmems(items: list[tuple[Any, bool, bool]]) -> str:
    return cq.clist(cq.cpair(cq.cjson(k), cmem(n, h)) for k, n, h in items)


def snapshot(memories: Any) -> list[tuple[Any, bool, bool]]:
    return [(k, bool(m.noticed_by_listing), bool(m.fully_handled_once)) for k, m in memories._items.items()]


def cview(v: dict) -> str:
    prog = cq.clist(cq.cpair(cq.cnat(i), CPROG[p]) for i, p in v['prog'])
    return (f'{{| vw_old_none := {cq.cbool(v["old_none"])}; vw_diff_empty := {cq.cbool(v["diff_empty"])}; '
            f'vw_deleting := {cq.cbool(v["deleting"])}; vw_blocked := {cq.cbool(v["blocked"])}; vw_prog := {prog} |}}')


def cin(key: str, i: dict) -> str:
    out = cq.clist(cq.cpair(cq.cnat(ix), COUT[o]) for ix, o in i['out'])
    return (f'{{| in_key := {key}; in_evt := {CEV[i["evt"]]}; in_view := {cview(i["view"])}; in_gate := {cq.cbool(i["gate"])}; '
            f'in_match := {cq.clist(cq.cnat(x) for x in i["match"])}; in_awake := {cq.clist(cq.cnat(x) for x in i["awake"])}; '
            f'in_out := {out} |}}')


def cobs(o: dict) -> str:
    inv = cq.clist(cq.cpair(cq.cnat(ix), COUT[x]) for ix, x in o['invoked'])
    return (f'{{| ob_initial0 := {cq.cbool(o["initial0"])}; ob_reason := {CR[o["reason"]]}; ob_initial := {cq.cbool(o["initial"])}; '
            f'ob_selected := {cq.clist(cq.cnat(x) for x in o["selected"])}; ob_invoked := {inv}; ob_done := {cq.cbool(o["done"])}; '
            f'ob_skip := {cq.cbool(o["skip"])}; ob_handled_after := {cq.cbool(o["handled_after"])} |}}')


# ---- records and outcomes of Model/Progress.v (conventions of C02: times are integer microseconds since clock.EPOCH)
US = datetime.timedelta(microseconds=1)
REC_KEYS = ('started', 'stopped', 'delayed', 'purpose', 'retries', 'success', 'failure', 'message', 'subrefs')
CLC = {'all_at_once': 'LAll', 'one_by_one': 'LOne', 'asap': 'LAsap'}
COUT_PG = {'ok': '(mkPgOut true None None None nil)',
           'perm': '(mkPgOut true (Some "scripted"%string) None None nil)',
           'tmp': f'(mkPgOut false (Some "scripted"%string) (Some ({TMP_DELAY * 1000000})%Z) None nil)'}


def from_iso(s: str) -> int:
    d = datetime.datetime.fromisoformat(s)
    if d.tzinfo is None:
        d = d.replace(tzinfo=datetime.timezone.utc)
    delta = d - clock.EPOCH
    n = delta // US
    if n * US != delta:
        raise cq.Unencodable(s)
    return n


def model_record(raw: Any) -> dict | None:
    if raw is None:
        return None
    out: dict[str, Any] = {}
    for k, v in dict(raw).items():
        if v is None:
            continue
        if k not in REC_KEYS:
            raise cq.Unencodable(f'unknown record field {k}')
        out[k] = from_iso(v) if k in ('started', 'stopped', 'delayed') else (list(v) if k == 'subrefs' else v)
    return out


def coz(x: Any) -> str:
    return cq.copt(None if x is None else cq.cZ(x))


def costr(x: Any) -> str:
    return cq.copt(None if x is None else cq.cstr(x))


def c_srec(m: dict) -> str:
    subs = m.get('subrefs')
    return (f"(mkPgRec {coz(m.get('started'))} {coz(m.get('stopped'))} {coz(m.get('delayed'))} {costr(m.get('purpose'))} "
            f"{coz(m.get('retries'))} {cob(m.get('success'))} {cob(m.get('failure'))} {costr(m.get('message'))} "
            f"{cq.copt(None if subs is None else cq.clist(cq.cstr(x) for x in subs))})")


def c_osrec(m: dict | None) -> str:
    return 'None' if m is None else f'(Some {c_srec(m)})'


def chdecl(ix: int, hid: int, fn: int, reason: Any, initial: Any, deleted: Any) -> str:
    return (f'{{| hd_ix := {cq.cnat(ix)}; hd_id := {cq.cnat(hid)}; hd_fn := {cq.cnat(fn)}; hd_reason := {coreason(reason)}; '
            f'hd_initial := {cob(initial)}; hd_deleted := {cob(deleted)} |}}')


# --------------------------------------------------------------------------------------------
# Real kopf objects and observation points
# --------------------------------------------------------------------------------------------

class Env:
    def __init__(self) -> None:
        import kopf
        from kopf._cogs.configs import configuration
        from kopf._cogs.structs import bodies, diffs, ephemera, patches, references
        from kopf._core.actions import application, execution, lifecycles
        from kopf._core.engines import indexing
        from kopf._core.intents import causes, registries
        from kopf._core.reactor import inventory, processing
        self.kopf, self.bodies, self.diffs, self.ephemera, self.patches = kopf, bodies, diffs, ephemera, patches
        self.application, self.execution, self.lifecycles, self.indexing = application, execution, lifecycles, indexing
        self.causes, self.registries, self.inventory, self.processing = causes, registries, inventory, processing
        self.resource = references.Resource('kopf.dev', 'v1', 'kopfexamples', kind='KopfExample', namespaced=True)
        self.settings = configuration.OperatorSettings()
        self.settings.posting.enabled = False
        if self.settings.persistence.finalizer != FIN:
            raise RuntimeError(f'observation point moved: default finalizer is {self.settings.persistence.finalizer!r}')
        self.indexers = indexing.OperatorIndexers()
        self.logger = logging.getLogger('kv.c14')
        self.logger.propagate = False
        # what the observation points saw during the current step
        self.detects: list[dict] = []
        self.reached: list[Any] = []
        self.executed: list[list[Any]] = []
        self.messages: list[str] = []
        self.world: Any = None
        self._saved: list[tuple[Any, str, Any]] = []
        self._log_handler: Any = None

    # ---- install / remove the wrappers (this process only; the closed-loop part runs afterwards)
    def __enter__(self) -> 'Env':
        env = self
        for mod, name in ((self.causes, 'detect_changing_cause'), (self.processing, 'process_changing_cause'),
                          (self.execution, 'execute_handlers_once'), (self.application, 'apply')):
            if not callable(getattr(mod, name, None)):
                raise RuntimeError(f'observation point missing: {mod.__name__}.{name}')
            self._saved.append((mod, name, getattr(mod, name)))
        orig_detect, orig_changing, orig_exec = (s[2] for s in self._saved[:3])

        def detect(**kw: Any) -> Any:
            cause = orig_detect(**kw)
            env.detects.append({'evt': kw['raw_event']['type'], 'initial0': bool(kw.get('initial', False)),
                                'old_none': kw.get('old') is None, 'diff_empty': not kw.get('diff'),
                                'reason': str(cause.reason.value), 'initial': bool(cause.initial)})
            return cause

        async def changing(**kw: Any) -> Any:
            env.reached.append(kw['cause'])
            return await orig_changing(**kw)

        async def execute(**kw: Any) -> Any:
            env.executed.append(list(kw['handlers']))
            return await orig_exec(**kw)

        async def apply(*, settings: Any, resource: Any, body: Any, patch: Any, delays: Any, logger: Any,
                        stream_pressure: Any = None) -> Any:
            rv = env.world.apply_patch(body, patch)
            return (not patch and not delays), rv, None

        self.causes.detect_changing_cause = detect
        self.processing.process_changing_cause = changing
        self.execution.execute_handlers_once = execute
        self.application.apply = apply

        class _H(logging.Handler):
            def emit(h, record: logging.LogRecord) -> None:  # noqa: N805
                env.messages.append(record.getMessage())
        self._log_handler = _H()
        self._objlogger = logging.getLogger('kopf.objects')
        self._objlevel, self._objprop = self._objlogger.level, self._objlogger.propagate
        self._objlogger.setLevel(logging.DEBUG)
        self._objlogger.propagate = False
        self._objlogger.addHandler(self._log_handler)
        clock.install()
        return self

    def __exit__(self, *exc: Any) -> None:
        for mod, name, orig in self._saved:
            setattr(mod, name, orig)
        self._saved.clear()
        self._objlogger.removeHandler(self._log_handler)
        self._objlogger.setLevel(self._objlevel)
        self._objlogger.propagate = self._objprop

    def cause(self, body: dict, reason: str, initial: bool) -> Any:
        return self.causes.ChangingCause(
            logger=self.logger, indices=self.indexers.indices, memo=self.ephemera.Memo(), resource=self.resource,
            patch=self.patches.Patch({}), body=self.bodies.Body(body), initial=initial, reason=self.causes.Reason(reason),
            diff=self.diffs.Diff(()), old=None, new=None)


# --------------------------------------------------------------------------------------------
# D:resume_key — _build_key / recall / forget with one container kept across operations
# --------------------------------------------------------------------------------------------

UIDS: list[Any] = ['u1', 'u2', 'u3', 'u1', 'u2', '', None, 0, 1, True, False, 5, 'True', '1', [], ['u1'], {}, {'u': 1}]


def gen_key_body(r: Any) -> Any:
    k = r.randrange(24)
    if k == 0:
        return r.choice([{}, {'spec': {}}])
    if k == 1:
        return {'metadata': r.choice([None, 'text', 5, [], ['uid'], True])}
    if k == 2:
        return r.choice([[], 'body', None, 5])
    if k == 3:
        return {'metadata': {}}
    md: dict[str, Any] = {'name': 'n', 'uid': r.choice(UIDS)}
    if r.random() < 0.2:
        md.pop('name')
    return {'metadata': md, 'spec': {'x': 1}}


def run_keys(ctx: fw.Ctx, env: Env, n_seq: int) -> list[fw.Case]:
    r = ctx.rng
    cases: list[fw.Case] = []
    loop = vloop.new_loop()
    try:
        with vloop.running(loop):
            for si in range(n_seq):
                memories = env.inventory.ResourceMemories()
                for oi in range(r.choice([4, 8, 12])):
                    body = gen_key_body(r)
                    before = snapshot(memories)
                    op = r.choice(['recall', 'recall', 'recall', 'forget', 'key'])
                    noticed, eph = r.random() < 0.5, r.random() < 0.15
                    data = {'seq': si, 'op': op, 'body': body, 'noticed_by_listing': noticed, 'ephemeral': eph, 'memories': before}
                    mb, mms = cq.cjson(body), cmems(before)

                    def call() -> Any:
                        if op == 'key':
                            return memories._build_key(body)
                        coro = (memories.recall(body, noticed_by_listing=noticed, ephemeral=eph) if op == 'recall'
                                else memories.forget(body))
                        t = loop.spawn(coro)
                        loop.settle()
                        return t.result()
                    kind, got = canon.run_res(call)
                    after = snapshot(memories)
                    ctx.count('memories_op', f'{op}:{kind}')
                    if op == 'key':
                        exp = canon.cres(kind, cq.cjson(got) if kind == 'ok' else None)
                        cases.append(fw.Case(f'res_eqb jeqb (rs_build_key {mb}) {exp}', {**data, 'outcome': kind, 'key': got},
                                             diag=f'rs_build_key {mb}'))
                    elif op == 'recall':
                        exp = canon.cres(kind, cq.cpair(cmem(got.noticed_by_listing, got.fully_handled_once), cmems(after))
                                         if kind == 'ok' else None)
                        call_t = f'rs_recall_body {mms} {mb} {cq.cbool(noticed)} {cq.cbool(eph)}'
                        cases.append(fw.Case(f'res_eqb rs_recall_eqb ({call_t}) {exp}', {**data, 'outcome': kind, 'after': after},
                                             diag=call_t))
                        if kind == 'ok':
                            key = memories._build_key(body)
                            existed = any(k == key for k, _, _ in before)
                            ctx.count('recall_branch', 'existing' if existed else 'ephemeral' if eph else 'created')
                            # monitor: the listing flag of an existing memory is never refreshed
                            if existed:
                                was = [n for k, n, _ in before if k == key][0]
                                if bool(got.noticed_by_listing) != was:
                                    ctx.fail('recall changed noticed_by_listing of an existing memory', data,
                                             observed=got.noticed_by_listing, expected=was, sig='noticed-refreshed')
                            ctx.nontriv(['recall', existed, eph, noticed, repr(key)])
                            if r.random() < 0.3:
                                got.fully_handled_once = True
                    else:
                        exp = canon.cres(kind, cmems(after) if kind == 'ok' else None)
                        cases.append(fw.Case(f'res_eqb rs_mems_eqb (rs_forget_body {mms} {mb}) {exp}',
                                             {**data, 'outcome': kind, 'after': after}, diag=f'rs_forget_body {mms} {mb}'))
    finally:
        vloop.close_loop(loop)
    return cases


# --------------------------------------------------------------------------------------------
# D:resume_detect — detect_changing_cause over the atom table
# --------------------------------------------------------------------------------------------

def table_body(deleting: bool, blocked: bool) -> dict:
    md: dict[str, Any] = {'name': 'obj1', 'namespace': 'ns1', 'uid': 'uid-1'}
    if deleting:
        md['deletionTimestamp'] = '2020-01-01T00:00:00Z'
    md['finalizers'] = [FIN, 'other/f'] if blocked else ['other/f']
    return {'apiVersion': 'kopf.dev/v1', 'kind': 'KopfExample', 'metadata': md, 'spec': {'x': 2}}


def run_detect_table(ctx: fw.Ctx, env: Env) -> list[fw.Case]:
    cases = []
    detect = env.causes.detect_changing_cause
    for ev, deleting, blocked, old_none, diffk, initial in itertools.product(
            [None, 'ADDED', 'MODIFIED', 'DELETED'], [False, True], [False, True], [False, True], ['none', 'empty', 'changed'],
            [False, True]):
        body = table_body(deleting, blocked)
        old = None if old_none else {'spec': {'x': 1}}
        new = {'spec': {'x': 2}}
        diff = {'none': None, 'empty': env.diffs.Diff(()), 'changed': env.diffs.diff({'spec': {'x': 1}}, new)}[diffk]
        cause = detect(finalizer=FIN, raw_event={'type': ev, 'object': body}, body=env.bodies.Body(body), old=old, new=new,
                       diff=diff, initial=initial, resource=env.resource, indices=env.indexers.indices, logger=env.logger,
                       patch=env.patches.Patch({}), memo=env.ephemera.Memo())
        got = (str(cause.reason.value), bool(cause.initial))
        view = {'old_none': old_none, 'diff_empty': diffk != 'changed', 'deleting': deleting, 'blocked': blocked, 'prog': []}
        term = f'rs_cause_eqb (rs_detect {CEV[ev]} {cview(view)} {cq.cbool(initial)}) ({CR[got[0]]}, {cq.cbool(got[1])})'
        data = {'event': ev, 'deleting': deleting, 'blocked': blocked, 'old_none': old_none, 'diff': diffk, 'initial': initial, 'got': got}
        cases.append(fw.Case(term, data, diag=f'rs_detect {CEV[ev]} {cview(view)} {cq.cbool(initial)}'))
        ctx.count('detect_reason', got[0])
        # monitors: the flag is never invented, never survives a creation, resume only at first sight without changes
        if got[1] and not initial:
            ctx.fail('the detector set the first-sight flag that the memory did not carry', data, observed=got, sig='initial-invented')
        if got[0] == 'create' and got[1]:
            ctx.fail('a creation cause carries the first-sight flag: resume handlers would be mixed into the creation of a '
                     'never-handled object', data, observed=got, sig='create-initial')
        if got[0] == 'resume' and not (initial and diffk != 'changed' and not old_none and not deleting and ev != 'DELETED'):
            ctx.fail('a resume cause for an object that is not (first seen by listing, handled before, unchanged, alive)', data,
                     observed=got, sig='resume-cause')
    return cases


# --------------------------------------------------------------------------------------------
# Registries built with the real decorators
# --------------------------------------------------------------------------------------------

KINDS: dict[str, tuple[str, dict]] = {
    'resume': ('resume', {}), 'resume-deleted': ('resume', {'deleted': True}), 'resume-undeleted': ('resume', {'deleted': False}),
    'create': ('create', {}), 'update': ('update', {}), 'delete': ('delete', {}), 'delete-optional': ('delete', {'optional': True}),
}
RESUME_KINDS = ('resume', 'resume-deleted', 'resume-undeleted')


def gen_decls(r: Any, min_resume: int = 1) -> list[dict]:
    """2..6 registrations; sometimes the create+resume idiom (one function, one id, two decorators); sometimes a label filter;
    rarely two different functions under one id."""
    n = r.choice([2, 3, 3, 4, 4, 5, 6])
    decls: list[dict] = []
    for i in range(n):
        kind = r.choice(['resume', 'resume', 'resume', 'resume-deleted', 'resume-undeleted', 'create', 'update', 'update',
                         'delete', 'delete-optional'])
        if i < min_resume:
            kind = r.choice(RESUME_KINDS[:2])
        script = r.choice([['ok'], ['ok'], ['ok'], ['tmp', 'ok'], ['tmp', 'tmp', 'ok'], ['perm'], ['tmp', 'perm'], ['tmp']])
        d = {'kind': kind, 'fn': f'fn{i}', 'id': f'h{i}', 'sel': r.random() < 0.25, 'script': script}
        if decls and r.random() < 0.15:
            prev = r.choice(decls)
            d['id'] = prev['id']
            if r.random() < 0.7:
                d['fn'] = prev['fn']
        decls.append(d)
    return decls


class Registry:
    def __init__(self, env: Env, decls: list[dict]) -> None:
        self.env, self.decls = env, decls
        self.calls: list[dict] = []
        self.reg = env.registries.OperatorRegistry()
        self.fns: dict[str, Any] = {}
        self.handlers: list[Any] = []
        self.pos: list[int] = [0] * len(decls)          # next script position per registration
        self.ids = sorted({d['id'] for d in decls})
        self.fnames = sorted({d['fn'] for d in decls})
        for ix, d in enumerate(decls):
            fn = self.fns.get(d['fn'])
            if fn is None:
                fn = self.fns[d['fn']] = self._mkfn(d['fn'])
            deco, kwargs = KINDS[d['kind']]
            kw = dict(kwargs)
            if d['sel']:
                kw['labels'] = {'sel': 'on'}
            getattr(env.kopf.on, deco)('kopfexamples', registry=self.reg, id=d['id'], param=ix, **kw)(fn)
            self.handlers.append(self.reg._changing.get_all_handlers()[-1])
        ids_ambiguous = {d['id'] for d in decls for e in decls if e['id'] == d['id'] and e['fn'] != d['fn']}
        self.ambiguous = ids_ambiguous

    def next_outcome(self, ix: int) -> str:
        s = self.decls[ix]['script']
        return s[min(self.pos[ix], len(s) - 1)]

    def _mkfn(self, name: str) -> Any:
        R = self

        async def fn(**kw: Any) -> None:
            ix = kw['param']
            if R.decls[ix].get('slow'):
                await asyncio.sleep(R.decls[ix]['slow'])        # some real work (virtual time)
            out = R.next_outcome(ix)
            R.pos[ix] += 1
            md = kw['body'].get('metadata', {})
            R.calls.append({'ix': ix, 'fn': name, 'outcome': out, 'reason': str(kw['reason'].value), 'uid': md.get('uid'),
                            'deleting': md.get('deletionTimestamp') is not None})
            if out == 'tmp':
                raise R.env.kopf.TemporaryError('scripted', delay=TMP_DELAY)
            if out == 'perm':
                raise R.env.kopf.PermanentError('scripted')
        fn.__name__ = name
        return fn

    def cregs(self) -> str:
        return cq.clist(chdecl(ix, self.ids.index(h.id), self.fnames.index(self.decls[ix]['fn']),
                               None if h.reason is None else h.reason.value, h.initial, h.deleted)
                        for ix, h in enumerate(self.handlers))

    def ix_of(self, handler: Any) -> int:
        for ix, h in enumerate(self.handlers):
            if h is handler:
                return ix
        raise RuntimeError('observation point moved: a handler object that is not a registration of the registry')


def run_decl_table(ctx: fw.Ctx, env: Env) -> list[fw.Case]:
    cases = []
    for name, (deco, kwargs) in KINDS.items():
        reg = env.registries.OperatorRegistry()

        async def fn(**_: Any) -> None:
            return None
        getattr(env.kopf.on, deco)('kopfexamples', registry=reg, id='h', **kwargs)(fn)
        h = reg._changing.get_all_handlers()[-1]
        got = chdecl(3, 1, 2, None if h.reason is None else h.reason.value, h.initial, h.deleted)
        model = (f'rs_on_resume 3 1 2 {cob(kwargs.get("deleted"))}' if deco == 'resume' else f'rs_on_reason {CR[deco]} 3 1 2')
        cases.append(fw.Case(f'rs_hdecl_eqb ({model}) {got}', {'decorator': name, 'reason': None if h.reason is None else h.reason.value,
                                                                 'initial': h.initial, 'deleted': h.deleted}, diag=model))
    return cases


def sel_body(deleting: bool, sel: bool) -> dict:
    b = table_body(deleting, True)
    b['metadata']['labels'] = {'sel': 'on'} if sel else {'sel': 'off'}
    return b


def run_select_table(ctx: fw.Ctx, env: Env, n_regs: int) -> list[fw.Case]:
    r = ctx.rng
    cases = []
    fixed = [[{'kind': k, 'fn': f'fn{i}', 'id': f'h{i}', 'sel': False, 'script': ['ok']} for i, k in enumerate(KINDS)]]
    for gi in range(n_regs):
        decls = fixed[gi] if gi < len(fixed) else gen_decls(r, min_resume=0)
        R = Registry(env, decls)
        for reason, ci, cd, sel in itertools.product(REASONS, [False, True], [False, True], [False, True]):
            cause = env.cause(sel_body(cd, sel), reason, ci)
            got = [R.ix_of(h) for h in R.reg._changing.get_handlers(cause=cause)]
            matching = [ix for ix, d in enumerate(decls) if sel or not d['sel']]
            call = (f'rs_get_handlers {R.cregs()} {CR[reason]} {cq.cbool(ci)} {cq.cbool(cd)} '
                    f'{cq.clist(cq.cnat(x) for x in matching)}')
            data = {'registry': decls, 'cause': [reason, ci, cd], 'label_sel_on': sel, 'selected': got}
            cases.append(fw.Case(f'rs_list_eqb Nat.eqb (map hd_ix ({call})) {cq.clist(cq.cnat(x) for x in got)}', data,
                                 diag=f'map hd_ix ({call})'))
            # monitors (the harness's reading of "resume handlers ... not for objects being deleted unless they opted in")
            for ix in got:
                k = decls[ix]['kind']
                if k in RESUME_KINDS:
                    ctx.count('select_resume', f'{reason}:{"deleting" if cd else "alive"}')
                    if not ci:
                        ctx.fail('a resume handler is selected for a cause that is not the first sight of the object', data,
                                 observed=decls[ix], sig='select-resume-not-initial')
                    if cd and k != 'resume-deleted':
                        ctx.fail('a resume handler without deleted=True is selected for an object being deleted', data,
                                 observed=decls[ix], sig='select-resume-deleting')
            if ci and reason in ('create', 'update', 'delete', 'resume'):
                first = {}
                for ix, d in enumerate(decls):
                    first.setdefault((d['fn'], d['id']), ix)
                for ix, d in enumerate(decls):
                    wanted = d['kind'] in RESUME_KINDS and ix in matching and (not cd or d['kind'] == 'resume-deleted')
                    if wanted and first[(d['fn'], d['id'])] == ix and ix not in got:
                        ctx.fail('a matching resume handler is not selected for the first sight of the object', data,
                                 observed=decls[ix], sig='select-resume-missing')
            ctx.nontriv(['select', decls, reason, ci, cd, sel])
    return cases


# --------------------------------------------------------------------------------------------
# The harness's server-side objects
# --------------------------------------------------------------------------------------------

class World:
    def __init__(self, env: Env, R: Registry, uids: list[str], r: Any) -> None:
        self.env, self.R = env, R
        self.rv = 10
        self.objs: dict[str, dict | None] = {}
        self.ghost: dict[str, dict] = {}           # last body of deleted objects
        self.stream: Any = None                    # the watch stream of the running operator process (end-to-end histories)
        for uid in uids:
            self.objs[uid] = {'apiVersion': 'kopf.dev/v1', 'kind': 'KopfExample',
                              'metadata': {'name': f'obj-{uid}', 'namespace': 'ns1', 'uid': uid, 'resourceVersion': '1',
                                           'labels': {'sel': r.choice(['on', 'off'])}},
                              'spec': {'x': r.choice([1, 2])}}
            if r.random() < 0.3:
                self.objs[uid]['metadata']['finalizers'] = ['other/finalizer']   # type: ignore[index]

    def mark_handled(self, uid: str) -> None:
        """As an earlier operator process left it: the last-handled state written by the real diff-base storage."""
        obj = self.objs[uid]
        assert obj is not None
        storage = self.env.settings.persistence.diffbase_storage
        body = self.env.bodies.Body(obj)
        p = self.env.patches.Patch({})
        storage.store(body=body, patch=p, essence=storage.build(body=body, extra_fields=set()))
        self.objs[uid] = canon.merge7386(obj, json.loads(json.dumps(dict(p))))

    def seed(self, uid: str, r: Any, needs_finalizer: bool) -> str:
        """A random life-cycle state at the start of the history."""
        k = r.random()
        if k < 0.3:
            return 'never-handled'
        self.mark_handled(uid)
        obj = self.objs[uid]
        assert obj is not None
        md = obj['metadata']
        if needs_finalizer and r.random() < 0.8:
            md['finalizers'] = list(md.get('finalizers', [])) + [FIN]
        state = 'handled'
        if r.random() < 0.25:
            obj['spec']['x'] = 'edited-while-down'
            state += '+edited'
        if md.get('finalizers') and r.random() < 0.15:
            md['deletionTimestamp'] = '2030-01-01T00:00:00Z'
            state += '+deleting'
        return state

    def bump(self, obj: dict) -> str:
        self.rv += 1
        obj['metadata']['resourceVersion'] = str(self.rv)
        return str(self.rv)

    def apply_patch(self, body: Any, patch: Any) -> str | None:
        uid = body.metadata.uid
        obj = self.objs.get(uid)
        if obj is None or not patch:
            return None
        merged = canon.merge7386(obj, json.loads(json.dumps(dict(patch))))
        for fn in patch.fns:
            fn(merged)
        self.objs[uid] = merged
        rv = self.bump(merged)
        if self.stream is not None:
            self.stream.put_nowait({'type': 'MODIFIED', 'object': copy.deepcopy(merged)})
        return rv

    # ---- the harness's own reading of an object
    def deleting(self, obj: dict) -> bool:
        return obj['metadata'].get('deletionTimestamp') is not None

    def blocked(self, obj: dict) -> bool:
        return FIN in (obj['metadata'].get('finalizers') or [])

    def handled_before(self, obj: dict) -> bool:
        return 'kopf.zalando.org/last-handled-configuration' in (obj['metadata'].get('annotations') or {})

    def record(self, obj: dict, hid: str) -> dict | None:
        raw = (obj['metadata'].get('annotations') or {}).get(f'kopf.zalando.org/{hid}')
        return None if raw is None else json.loads(raw)

    def prog(self, obj: dict, hid: str) -> str:
        rec = self.record(obj, hid)
        if rec is None:
            return 'none'
        return 'finished' if rec.get('success') or rec.get('failure') else 'open'

    def awake(self, obj: dict, hid: str, now: datetime.datetime) -> bool:
        rec = self.record(obj, hid)
        if rec is None or not rec.get('delayed'):
            return True
        d = datetime.datetime.fromisoformat(rec['delayed'])
        if d.tzinfo is None:
            d = d.replace(tzinfo=datetime.timezone.utc)
        return d <= now


# --------------------------------------------------------------------------------------------
# D:resume_step / D:resume_trace + monitors — histories through the real process_resource_event
# --------------------------------------------------------------------------------------------

def run_histories(ctx: fw.Ctx, env: Env, n_hist: int, D: dict[str, list[fw.Case]], corpus: list[dict]) -> None:
    r = ctx.rng
    for hi in range(n_hist + len(corpus)):
        if hi < len(corpus):
            c = corpus[hi]
            run_history(ctx, env, D, {'decls': c['decls'], 'uids': c['uids'], 'init': c.get('init'), 'pending0': c.get('pending0', []),
                                      'actions': c['script']}, r, f'corpus:{c["name"]}')
        else:
            decls = gen_decls(r)
            uids = [f'uid-{hi}-{j}' for j in range(r.choice([1, 1, 2, 3]))]
            run_history(ctx, env, D, {'decls': decls, 'uids': uids, 'init': None, 'pending0': None, 'actions': None}, r, f'gen:{hi}')


def run_history(ctx: fw.Ctx, env: Env, D: dict[str, list[fw.Case]], spec: dict, r: Any, name: str) -> None:
    """spec = {decls, uids, init: server-side objects or None, pending0: events in flight at the start or None,
    actions: the environment's actions or None (generated, and recorded so that a failing history can be replayed)}."""
    decls, uids, script = spec['decls'], spec['uids'], spec['actions']
    lifecycle = spec.get('lifecycle') or (r.choice(['all_at_once', 'all_at_once', 'one_by_one', 'asap']) if script is None
                                          else 'all_at_once')
    ctx.count('fn_lifecycle', lifecycle)
    R = Registry(env, decls)
    W = World(env, R, uids, r)
    env.world = W
    if spec.get('init') is not None:
        W.objs = copy.deepcopy(spec['init'])
    elif script is not None:
        for uid in uids:
            W.objs[uid]['metadata']['labels'] = {'sel': 'on'}       # type: ignore[index]
            W.objs[uid]['metadata'].pop('finalizers', None)         # type: ignore[index]
            W.objs[uid]['spec'] = {'x': 1}                          # type: ignore[index]
            W.mark_handled(uid)
    else:
        needs_fin = any(d['kind'] == 'delete' for d in decls)
        for uid in uids:
            ctx.count('start_state', W.seed(uid, r, needs_fin))
    init = copy.deepcopy(W.objs)
    loop = vloop.new_loop()
    memories = env.inventory.ResourceMemories()
    epoch = 0
    if spec.get('pending0') is not None:
        pending: list[tuple[Any, str]] = [(p[0], p[1]) for p in spec['pending0']]
    else:
        pending = [(None if r.random() < 0.75 else 'ADDED', u) for u in uids]
    replayable = {'decls': decls, 'uids': uids, 'init': init, 'pending0': [list(p) for p in pending], 'actions': [],
                  'lifecycle': lifecycle}
    labels: list[str] = []          # Coq labels of the whole history
    trace_obs: list[str] = []
    trace_data: list[dict] = []
    # monitor state
    first_seen: dict[tuple[int, str], Any] = {}      # (epoch, uid) -> event type of the first event in this process
    unreal: set[str] = set()                         # uids whose history left what Kubernetes can produce
    gone: set[str] = set()
    successes: dict[tuple[int, str, int], int] = {}
    initial_false: set[tuple[int, str]] = set()
    closed: set[tuple[int, str]] = set()             # a handling cycle of the object has completed in this process
    first_cycle_due: dict[tuple[int, str], bool] = {}
    relist_in_open_cycle = False
    steps = len(script) if script is not None else r.choice([8, 12, 16, 22])
    si = 0
    try:
        with vloop.running(loop):
            while si < steps:
                # ---- environment action (when no event is pending)
                if script is not None:
                    act = dict(script[si])
                elif not pending:
                    act = {'a': r.choice(['edit', 'edit', 'status', 'label', 'label', 'relist', 'relist', 'relist', 'restart', 'restart',
                                          'delete', 'sleep', 'sleep', 'sleep', 'unfinalize', 'stale']), 'uid': r.choice(uids)}
                    if act['a'] == 'edit':
                        act['x'] = r.choice([1, 2, 3, 'v'])
                    elif act['a'] == 'sleep':
                        act['dt'] = r.choice([TMP_DELAY, TMP_DELAY, 3, 25])
                    elif act['a'] == 'stale':
                        act['type'] = r.choice([None, 'ADDED', 'MODIFIED'])
                else:
                    act = {'a': 'deliver'}
                si += 1
                kind = act['a']
                replayable['actions'].append(act)
                live = [u for u in uids if W.objs[u] is not None]
                if kind == 'restart':
                    memories = env.inventory.ResourceMemories()
                    epoch += 1
                    labels.append('LRestart')
                    trace_data.append({'a': 'restart'})
                    pending = [(None, u) for u in live]
                    ctx.count('fn_env_action', 'restart')
                    continue
                if kind == 'relist':
                    pending = [(None, u) for u in live]        # the stream restarts: what was in flight is superseded by the listing
                    for u in live:
                        obj = W.objs[u]
                        assert obj is not None
                        if any(W.prog(obj, h) != 'none' for h in R.ids):
                            relist_in_open_cycle = True
                    ctx.count('fn_env_action', 'relist')
                    kind = 'deliver'
                elif kind == 'sleep':
                    loop.advance_by(act.get('dt', TMP_DELAY))
                    loop.settle()
                    ctx.count('fn_env_action', 'sleep')
                    pending.append(('MODIFIED', act['uid'])) if W.objs[act['uid']] is not None else None
                    kind = 'deliver'
                elif kind in ('edit', 'status', 'label', 'delete', 'unfinalize', 'touch', 'stale', 'event'):
                    uid = act['uid']
                    obj = W.objs[uid]
                    ctx.count('fn_env_action', kind)
                    if kind == 'event':                       # scripted: deliver exactly this event type
                        pending.append((act['type'], uid))
                    elif kind == 'stale':                     # an event after DELETED: outside Kubernetes, inside the model
                        if obj is None and uid in W.ghost:
                            unreal.add(uid)
                            W.objs[uid] = copy.deepcopy(W.ghost[uid])
                            W.objs[uid]['metadata'].pop('deletionTimestamp', None)      # type: ignore[index]
                            pending.append((act.get('type'), uid))
                    elif obj is not None:
                        md = obj['metadata']
                        if kind == 'edit':
                            obj['spec']['x'] = act.get('x', 'edited')
                        elif kind == 'label':
                            md.setdefault('labels', {})['sel'] = act.get('sel', 'off' if md.get('labels', {}).get('sel') == 'on' else 'on')
                        elif kind == 'status':
                            obj.setdefault('status', {})['observed'] = W.rv
                        elif kind == 'unfinalize':
                            md['finalizers'] = [f for f in md.get('finalizers', []) if f == FIN]
                            if not md['finalizers']:
                                md.pop('finalizers')
                        elif kind == 'delete':
                            if md.get('finalizers'):
                                md.setdefault('deletionTimestamp', '2030-01-01T00:00:00Z')
                            else:
                                W.ghost[uid] = obj
                                W.objs[uid] = None
                                gone.add(uid)
                                pending = [p for p in pending if p[1] != uid] + [('DELETED', uid)]
                        if W.objs[uid] is not None:
                            W.bump(obj)
                            pending.append(('MODIFIED', uid))
                    kind = 'deliver'
                if kind != 'deliver' or not pending:
                    continue

                # ---- deliver one pending event through the real reactor
                ev, uid = pending.pop(0)
                obj = W.objs[uid] if W.objs[uid] is not None else W.ghost.get(uid)
                if obj is None:
                    continue
                raw = copy.deepcopy(obj)
                before = snapshot(memories)
                now = clock.at(loop.time())
                view_h = {'deleting': W.deleting(raw), 'blocked': W.blocked(raw),
                          'prog': [(i, W.prog(raw, h)) for i, h in enumerate(R.ids)]}
                awake = [i for i, h in enumerate(R.ids) if W.prog(raw, h) == 'open' and W.awake(raw, h, now)]
                matching = [ix for ix, d in enumerate(decls) if not d['sel'] or raw['metadata'].get('labels', {}).get('sel') == 'on']
                outs = [(ix, R.next_outcome(ix)) for ix in range(len(decls))]
                handled_before = W.handled_before(raw)
                recs_before = {h: model_record(W.record(raw, h)) for h in R.ids}
                now_us = from_iso(now.isoformat())
                env.detects.clear(); env.reached.clear(); env.executed.clear(); env.messages.clear(); R.calls.clear()
                recalled: list[Any] = []
                orig_recall = type(memories).recall

                async def recall(raw_body: Any, **kw: Any) -> Any:
                    m = await orig_recall(memories, raw_body, **kw)
                    recalled.append(m)
                    return m
                memories.recall = recall             # type: ignore[method-assign]
                coro = env.processing.process_resource_event(
                    lifecycle=getattr(env.lifecycles, lifecycle), indexers=env.indexers, registry=R.reg, settings=env.settings,
                    memories=memories, memobase=env.ephemera.Memo(), resource=env.resource, raw_event={'type': ev, 'object': raw},
                    event_queue=None, no_throttling=True)
                t = loop.spawn(coro)
                loop.settle()
                del memories.recall                  # type: ignore[attr-defined]
                if not t.done():
                    t.cancel()
                    loop.settle()
                    raise RuntimeError('observation point moved: process_resource_event did not finish without waiting')
                t.result()
                if len(env.detects) != 1 or len(recalled) != 1:
                    raise RuntimeError(f'observation point moved: {len(env.detects)} cause detections, {len(recalled)} recalls in one event')
                det = env.detects[0]
                reached = bool(env.reached)
                selected = [R.ix_of(h) for h in env.executed[0]] if env.executed else []
                invoked = [(c['ix'], c['outcome']) for c in R.calls]
                obs = {'initial0': det['initial0'], 'reason': det['reason'], 'initial': det['initial'], 'selected': selected,
                       'invoked': invoked, 'done': any('is processed:' in m for m in env.messages),
                       'skip': reached and det['reason'] in ('create', 'update', 'delete', 'resume') and not env.executed,
                       'handled_after': bool(recalled[0].fully_handled_once)}
                after = snapshot(memories)
                # the pending events that Kubernetes would send for what kopf wrote
                cur = W.objs[uid]
                if cur is not None and cur['metadata'].get('resourceVersion') != raw['metadata'].get('resourceVersion'):
                    if W.deleting(cur) and not cur['metadata'].get('finalizers'):
                        W.ghost[uid] = cur
                        W.objs[uid] = None
                        gone.add(uid)
                        pending = [p for p in pending if p[1] != uid] + [('DELETED', uid)]
                    else:
                        pending.append(('MODIFIED', uid))

                # ---- the model on the same step
                view = {**view_h, 'old_none': det['old_none'], 'diff_empty': det['diff_empty']}
                inp = {'evt': ev, 'view': view, 'gate': reached, 'match': matching, 'awake': awake, 'out': outs}
                kbody = {'metadata': {'uid': uid, 'name': raw['metadata']['name']}}
                data = {'history': name, 'registry': decls, 'step': len(trace_data), 'epoch': epoch, 'event': ev, 'uid': uid,
                        'memories_before': before, 'memories_after': after, 'input': inp, 'observed': obs,
                        'calls': copy.deepcopy(R.calls)}
                if lifecycle == 'all_at_once':     # Model/Resume.v abstracts the execution as "every awakened handler runs"
                    call = f'rs_step_body {R.cregs()} {cmems(before)} {cq.cjson(kbody)} {cin("tt", inp)}'
                    D['resume_step'].append(fw.Case(f'res_eqb rs_step_eqb ({call}) (Ok ({cmems(after)}, {cobs(obs)}))', data, diag=call))
                    labels.append(f'(LEv {cin(cq.cjson(uid), inp)})')
                    trace_obs.append(cobs(obs))
                # ---- the composed model (Model/ResumeCycle.v: flags + the C02 pipeline on the concrete records, any lifecycle)
                sel_ids = [decls[ix]['id'] for ix in selected]
                ctx.count('cycle_lifecycle', lifecycle)
                if len(set(sel_ids)) != len(sel_ids):
                    ctx.count('cycle_case', 'skipped: two functions under one id selected (the pipeline model is per id)')
                else:
                    cause = env.reached[0] if env.reached else None
                    nd = bool(cause is not None and cause.new is not None and cause.old != cause.new)
                    retries_of = {h: (recs_before[h] or {}).get('retries') or 0 for h in R.ids}
                    rows = [f"({cq.cstr(decls[ix]['id'])}, {cq.cZ(retries_of[decls[ix]['id']])}, {COUT_PG[dict(outs)[ix]]})" for ix in selected]
                    cur_obj = W.objs[uid] if W.objs[uid] is not None else W.ghost.get(uid)
                    recs_after = [model_record(W.record(cur_obj, h)) for h in R.ids]
                    inv_pg = [(decls[c['ix']]['id'], retries_of[decls[c['ix']]['id']]) for c in R.calls]
                    body_t = cq.clist(cq.cpair(cq.cstr(h), c_srec(m)) for h, m in recs_before.items() if m is not None)
                    ci = (f'{{| ci_key := {cq.cjson(uid)}; ci_evt := {CEV[ev]}; ci_old_none := {cq.cbool(det["old_none"])}; '
                          f'ci_diff_empty := {cq.cbool(det["diff_empty"])}; ci_deleting := {cq.cbool(view_h["deleting"])}; '
                          f'ci_blocked := {cq.cbool(view_h["blocked"])}; ci_body := {body_t}; ci_gate := {cq.cbool(reached)}; '
                          f'ci_match := {cq.clist(cq.cnat(x) for x in matching)}; ci_lc := {CLC[lifecycle]}; ci_now := {cq.cZ(now_us)}; '
                          f'ci_nd := {cq.cbool(nd)}; ci_orc := pg_table_oracle {cq.clist(rows)} {COUT_PG["ok"]} |}}')
                    names = cq.clist(cq.cstr(h) for h in R.ids)
                    fho_step = bool(obs['done'] or obs['skip'])
                    term = (f'let i := {ci} in rc_step_eqb {names} (rc_step py_eqb (rc_name_of {names}) {R.cregs()} {cmems(before)} i) '
                            f'{cmems(after)} {cq.cbool(obs["initial0"])} {CR[obs["reason"]]} {cq.cbool(obs["initial"])} '
                            f'{cq.clist(cq.cnat(x) for x in selected)} '
                            f'{cq.clist(cq.cpair(cq.cstr(k), cq.cZ(n)) for k, n in inv_pg)} {cq.cbool(fho_step)} '
                            f'{cq.cbool(obs["handled_after"])} {cq.clist(c_osrec(m) for m in recs_after)} i')
                    diag = (f'let i := {ci} in let x := rc_step py_eqb (rc_name_of {names}) {R.cregs()} {cmems(before)} i in '
                            f'(fst x, co_initial0 (snd x), co_reason (snd x), co_initial (snd x), map hd_ix (co_sel (snd x)), '
                            f'r_invoked (co_result (snd x)), r_fho (co_result (snd x)), co_handled_after (snd x), '
                            f'map (fun s => pg_find s (rc_next_body i (snd x))) {names})')
                    D['resume_cycle'].append(fw.Case(term, {**data, 'lifecycle': lifecycle, 'now_us': now_us, 'records_before': recs_before,
                                                            'records_after': recs_after, 'new_differs': nd}, diag=diag))
                    purged = reached and any('is superseded by' in m for m in env.messages)
                    ctx.count('cycle_case', 'supersession purge' if purged else 'closing' if fho_step else
                              'open, records kept' if any(m is not None for m in recs_after) else 'nothing recorded')
                    ctx.count('cycle_records_before', str(sum(1 for m in recs_before.values() if m is not None)))
                trace_data.append({'event': ev, 'uid': uid, 'epoch': epoch, 'reason': obs['reason'], 'initial': obs['initial'],
                                   'reached': reached, 'match': matching, 'selected': selected, 'invoked': invoked})
                ctx.count('step_reason', obs['reason'] + ('+initial' if obs['initial'] else ''))
                ctx.count('step_gate', 'reached' if reached else 'not-reached')
                ctx.count('step_event', str(ev))
                ctx.count('step_closing', 'done' if obs['done'] else 'skip' if obs['skip'] else 'not-reached' if not reached else
                          'open' if obs['reason'] in ('create', 'update', 'delete', 'resume') else 'no-handling')
                ctx.count('recall_in_step', 'existing' if any(k == uid for k, _, _ in before) else 'created')

                # ---- monitors: the property text on this step (only while the history is one Kubernetes can produce)
                key = (epoch, uid)
                first_seen.setdefault(key, ev)
                if ev == 'DELETED' and uid not in gone:
                    unreal.add(uid)
                if uid in unreal:
                    continue
                case = {'history': name, 'registry': decls, 'uids': uids, 'trace': copy.deepcopy(trace_data), 'epoch': epoch, 'uid': uid,
                        'replay': copy.deepcopy(replayable)}
                if det['initial0'] and key in initial_false:
                    ctx.fail('the first-sight flag of an object came back within one operator process', case, sig='initial-again')
                if not det['initial0']:
                    initial_false.add(key)
                if det['initial0'] and first_seen[key] is not None:
                    ctx.fail('an object first seen by a watch event is treated as seen by the listing', case, observed=first_seen[key],
                             sig='initial-for-new-object')
                for c in R.calls:
                    d = decls[c['ix']]
                    if d['kind'] not in RESUME_KINDS:
                        continue
                    inv = {**case, 'invocation': {'registration': c['ix'], 'id': d['id'], 'kind': d['kind'], 'reason': c['reason'],
                                                  'outcome': c['outcome']}}
                    ctx.count('resume_invocation', f"{c['reason']}:{c['outcome']}")
                    if first_seen[key] is not None:
                        ctx.fail('a resume handler ran for an object first seen by a watch event (created after the start)', inv,
                                 observed=first_seen[key], sig='resume-for-new-object')
                    if c['reason'] == 'create' or (not handled_before and not W.deleting(raw)):
                        ctx.fail('a resume handler was mixed into the creation of a never-handled object', inv, sig='resume-on-create')
                    if key in closed:
                        ctx.fail('a resume handler ran after a handling cycle of the object had already completed in this operator '
                                 'process (a later change or re-listing triggered it)', inv, sig='resume-after-closed-cycle')
                    if W.deleting(raw) and d['kind'] != 'resume-deleted':
                        ctx.fail('a resume handler ran for an object being deleted without opting in', inv, sig='resume-on-deleting')
                    if c['outcome'] == 'ok':
                        k3 = (epoch, uid, c['ix'])
                        successes[k3] = successes.get(k3, 0) + 1
                        if successes[k3] > 1 and d['id'] not in R.ambiguous:
                            ctx.fail('a resume handler ran to completion more than once for one object in one operator process', inv,
                                     observed=successes[k3], expected='at most 1', sig='resume-twice')
                if obs['done'] or obs['skip']:
                    closed.add(key)
                # liveness in the first handling cycle of a pre-existing, handled, unburdened, live object
                if key not in first_cycle_due:
                    first_cycle_due[key] = (first_seen[key] is None and handled_before and not W.deleting(raw)
                                            and all(p == 'none' for _, p in view_h['prog']))
                if first_cycle_due[key] and reached and obs['reason'] in ('update', 'resume') and not W.deleting(raw):
                    first_cycle_due[key] = False
                    firsts: dict[tuple, int] = {}
                    for ix, d in enumerate(decls):
                        firsts.setdefault((d['fn'], d['id']), ix)
                    for ix, d in enumerate(decls):
                        if d['kind'] in RESUME_KINDS and ix in matching and firsts[(d['fn'], d['id'])] == ix \
                                and d['id'] not in R.ambiguous \
                                and ix not in ([c['ix'] for c in R.calls] if lifecycle == 'all_at_once' else selected) \
                                and all(p == 'none' for _, p in view_h['prog']):
                            ctx.fail('a pre-existing, handled-before object did not get a matching resume handler in its first '
                                     'handling cycle after the start', {**case, 'registration': ix}, observed=invoked,
                                     sig='resume-missed-at-first-cycle')
                elif first_cycle_due.get(key) and (W.deleting(raw) or any(p != 'none' for _, p in view_h['prog'])):
                    first_cycle_due[key] = False
    finally:
        vloop.close_loop(loop)
        env.world = None
    if labels and lifecycle == 'all_at_once':
        call = f'rs_trace_obs {R.cregs()} {cq.clist(labels)}'
        D['resume_trace'].append(fw.Case(f'rs_list_eqb rs_obs_eqb ({call}) {cq.clist(trace_obs)}',
                                         {'history': name, 'registry': decls, 'trace': trace_data}, diag=None))
    n_res_calls = sum(1 for t in trace_data for _ in t.get('invoked', []))
    if relist_in_open_cycle and n_res_calls >= 2:
        ctx.nontriv(['history', decls, trace_data])
    ctx.count('history_kind', 'relisting-inside-open-cycle' if relist_in_open_cycle else 'plain')
    ctx.sample({'registry': [f"{d['kind']}:{d['id']}:{','.join(d['script'])}{':sel' if d['sel'] else ''}" for d in decls],
                'trace': [f"{t.get('event', t.get('a'))}->{t.get('reason', '')}{'+initial' if t.get('initial') else ''}"
                          for t in trace_data][:14]}, limit=3)


# --------------------------------------------------------------------------------------------
# End to end: the real queueing.watcher + worker + process_resource_event on a fed watch stream
# --------------------------------------------------------------------------------------------
# The models decide about noticed_by_listing / initial at the level of PROCESSED events; that every event put into the
# stream reaches the processor is C01's clause.  This monitor is the property itself, judged at quiescence: every object that
# existed when the process started, was handled before, carries no progress records and is not being deleted has every resume
# handler run to completion exactly once in that process — whatever follows the listing batch in the stream, with and
# without settings.queueing.worker_limit.

class FakeApi:
    """LIST and WATCH of one resource, as kopf._cogs.clients.api.get / api.stream see them (the HTTP layer itself is not
    exercised).  An event log with resource versions; a watch serves everything newer than `resourceVersion`, then waits.
    Faults: the next `list_failures` LIST requests fail; `fault('410')` makes the open watch answer ERROR 410 (kopf re-lists);
    `fault('disconnect')` ends the open watch (kopf re-watches from the last seen version)."""

    def __init__(self, W: 'World', uids: list[str], fail_kind: str) -> None:
        self.W, self.uids, self.fail_kind = W, uids, fail_kind
        self.log: list[tuple[int, dict]] = []
        self.list_failures = 0
        self.after_list: Any = None
        self.pending_fault: str | None = None
        self.wake = asyncio.Event()
        self.served: list[str] = []

    def put_nowait(self, ev: dict) -> None:             # a write to an object (kopf's own patch or a third party)
        self.log.append((int(ev['object']['metadata']['resourceVersion']), ev))
        self.wake.set()

    def fault(self, kind: str) -> None:
        self.pending_fault = kind
        self.wake.set()

    async def get(self, *, url: str, settings: Any, logger: Any, **_: Any) -> Any:
        import aiohttp
        from kopf._cogs.clients import errors
        await asyncio.sleep(0)
        if self.list_failures > 0:
            self.list_failures -= 1
            self.served.append(f'LIST-fails:{self.fail_kind}')
            if self.fail_kind == 'timeout':
                raise asyncio.TimeoutError()
            if self.fail_kind == '429':
                raise errors.APITooManyRequestsError('too many requests', status=429, headers={})
            raise aiohttp.ClientConnectionError('connection refused')
        items = [copy.deepcopy(self.W.objs[u]) for u in self.uids if self.W.objs[u] is not None]
        rsp = {'kind': 'KopfExampleList', 'apiVersion': 'kopf.dev/v1', 'metadata': {'resourceVersion': str(self.W.rv)}, 'items': items}
        self.served.append(f'LIST:{len(items)}')
        hook, self.after_list = self.after_list, None
        if hook is not None:
            hook()                                       # writes that land right after the snapshot was taken
        return rsp

    async def stream(self, *, url: str, settings: Any, logger: Any, stopper: Any = None, timeout: Any = None, **_: Any) -> Any:
        import urllib.parse
        q = urllib.parse.parse_qs(urllib.parse.urlparse(url).query)
        since = int(q['resourceVersion'][0]) if 'resourceVersion' in q else 0
        self.served.append(f'WATCH>{since}')
        while True:
            if self.pending_fault is not None:
                kind, self.pending_fault = self.pending_fault, None
                self.served.append(kind)
                if kind == '410':
                    yield {'type': 'ERROR', 'object': {'kind': 'Status', 'code': 410, 'reason': 'Expired', 'message': 'too old'}}
                return
            fresh = [ev for rv, ev in self.log if rv > since]
            if fresh:
                for ev in fresh:
                    since = int(ev['object']['metadata']['resourceVersion'])
                    self.served.append(f"{ev['type']}:{ev['object']['metadata']['uid']}")
                    yield copy.deepcopy(ev)
                continue
            self.wake.clear()
            await self.wake.wait()


def gen_api_spec(r: Any, hi: int) -> dict:
    """The stream comes from the REAL watching.infinite_watch / continuous_watch over FakeApi."""
    spec = gen_stream_spec(r, hi)
    spec['api'] = True
    for proc in spec['processes']:
        proc['list_failures'] = r.choice([0, 0, 1, 2, 3])
        proc['fail_kind'] = r.choice(['connection', 'timeout', '429'])
        for ph in proc['phases'][1:]:
            if ph['a'] == 'run' and r.random() < 0.6:
                ph['a'] = 'disconnect'
    return spec


def gen_stream_spec(r: Any, hi: int) -> dict:
    decls = [{'kind': 'resume', 'fn': 'fn0', 'id': 'h0', 'sel': False, 'script': ['ok'], 'slow': r.choice([0, 0.25, 0.25])}]
    if r.random() < 0.4:
        decls.append({'kind': 'resume', 'fn': 'fn1', 'id': 'h1', 'sel': False, 'script': ['ok'], 'slow': 0})
    if r.random() < 0.5:
        decls.append({'kind': 'update', 'fn': 'fn2', 'id': 'h2', 'sel': False, 'script': ['ok'], 'slow': 0})
    if r.random() < 0.3:
        decls.append({'kind': 'create', 'fn': 'fn3', 'id': 'h3', 'sel': False, 'script': ['ok'], 'slow': 0})
    uids = [f'uid-s{hi}-{j}' for j in range(r.choice([1, 2, 3, 4]))]
    states = {u: ('handled' if r.random() < 0.85 else 'never') for u in uids}
    procs = []
    for _ in range(r.choice([1, 1, 2])):
        phases: list[dict] = [{'a': 'listing', 'behind': [{'uid': u, 'what': r.choice(['status', 'status', 'edit'])}
                                                          for u in uids if r.random() < 0.45]}]
        for _ in range(r.choice([0, 1, 2, 3])):
            k = r.choice(['status', 'edit', 'relist', 'run'])
            if k == 'relist':
                phases.append({'a': 'listing', 'behind': [{'uid': u, 'what': 'status'} for u in uids if r.random() < 0.3]})
            elif k == 'run':
                phases.append({'a': 'run', 'dt': r.choice([1, 7])})
            else:
                phases.append({'a': k, 'uid': r.choice(uids), 'settle': r.random() < 0.6})
        procs.append({'worker_limit': r.choice([None, None, 1, 1, 2]), 'phases': phases})
    return {'decls': decls, 'uids': uids, 'states': states, 'processes': procs}


def run_stream_history(ctx: fw.Ctx, env: Env, spec: dict, name: str) -> None:
    from kopf._cogs.clients import api as kapi, watching
    from kopf._core.reactor import queueing
    decls, uids = spec['decls'], spec['uids']
    api_mode = bool(spec.get('api'))
    orig_get, orig_stream = kapi.get, kapi.stream
    R = Registry(env, decls)
    W = World(env, R, uids, ctx.rng.__class__(0))
    for u in uids:
        W.objs[u]['metadata'].pop('finalizers', None)            # type: ignore[index]
        W.objs[u]['metadata']['labels'] = {'sel': 'on'}          # type: ignore[index]
        W.objs[u]['spec'] = {'x': 1}                             # type: ignore[index]
        if spec['states'][u] == 'handled':
            W.mark_handled(u)
    env.world = W
    loop = vloop.new_loop()
    orig_watch = watching.infinite_watch
    resumes = [ix for ix, d in enumerate(decls) if d['kind'] in RESUME_KINDS]
    summary: list[dict] = []
    try:
        with vloop.running(loop):
            for pi, proc in enumerate(spec['processes']):
                stream: Any = FakeApi(W, uids, proc.get('fail_kind', 'connection')) if api_mode else asyncio.Queue()
                W.stream = stream
                if api_mode:
                    stream.list_failures = proc.get('list_failures', 0)
                    kapi.get, kapi.stream = stream.get, stream.stream
                    ctx.count('api_first_list_failures', f"{proc.get('list_failures', 0)}" +
                              (f":{proc.get('fail_kind')}" if proc.get('list_failures') else ''))
                else:
                    async def infinite_watch(**_: Any) -> Any:
                        while True:
                            yield await stream.get()
                    watching.infinite_watch = infinite_watch
                settings = copy.copy(env.settings)
                settings = env.kopf.OperatorSettings()
                settings.posting.enabled = False
                settings.queueing.worker_limit = proc['worker_limit']
                memories = env.inventory.ResourceMemories()
                # the harness's reading of the objects at the start of the process: who is owed a resume
                owed = [u for u in uids if W.objs[u] is not None and W.handled_before(W.objs[u]) and not W.deleting(W.objs[u])
                        and all(W.prog(W.objs[u], h) == 'none' for h in R.ids)]
                R.calls.clear()
                env.detects.clear(); env.reached.clear(); env.executed.clear(); env.messages.clear()

                async def processor(**kw: Any) -> Any:
                    return await env.processing.process_resource_event(
                        lifecycle=env.lifecycles.asap, indexers=env.indexers, registry=R.reg, settings=settings, memories=memories,
                        memobase=env.ephemera.Memo(), resource=env.resource, event_queue=asyncio.Queue(), **kw)
                task = loop.spawn(queueing.watcher(settings=settings, resource=env.resource, namespace=None, processor=processor))
                delivered: list[str] = []

                def put(t: Any, u: str) -> None:
                    obj = W.objs[u]
                    if obj is not None:
                        stream.put_nowait({'type': t, 'object': copy.deepcopy(obj)})
                        delivered.append(f'{t}:{u}')

                def third_party(what: str, u: str) -> None:
                    obj = W.objs[u]
                    if obj is None:
                        return
                    if what == 'status':
                        obj.setdefault('status', {})['observed'] = W.rv
                    else:
                        obj['spec']['x'] = f'edited-{W.rv}'
                    W.bump(obj)
                    put('MODIFIED', u)
                for phi, ph in enumerate(proc['phases']):
                    ctx.count('api_phase' if api_mode else 'stream_phase', ph['a'] + ('+events-behind' if ph.get('behind') else ''))
                    if ph['a'] == 'listing' and api_mode:
                        # the real continuous_watch lists (at the start; again after ERROR 410); the writes land right after
                        # the snapshot, so the watch that follows serves them at once
                        stream.after_list = (lambda bs=ph['behind']: [third_party(b['what'], b['uid']) for b in bs])
                        if phi > 0:
                            stream.fault('410')
                        loop.run_for(20)
                    elif ph['a'] == 'disconnect':
                        if api_mode:
                            stream.fault('disconnect')
                        loop.run_for(5)
                    elif ph['a'] == 'listing':
                        for u in uids:
                            put(None, u)
                        stream.put_nowait(watching.Bookmark.LISTED)
                        for b in ph['behind']:           # watch events that follow the listing before any worker has run
                            third_party(b['what'], b['uid'])
                        loop.run_for(20)
                    elif ph['a'] == 'run':
                        loop.run_for(ph['dt'])
                    else:
                        third_party(ph['a'], ph['uid'])
                        loop.run_for(20 if ph.get('settle') else 0.1)
                loop.run_for(30)
                if task.done() and not task.cancelled() and task.exception() is not None:
                    raise RuntimeError(f'observation point moved: the watcher failed: {task.exception()!r}')
                calls = copy.deepcopy(R.calls)
                task.cancel()
                loop.run_for(1)
                W.stream = None
                ctx.count('stream_worker_limit', str(proc['worker_limit']))
                ctx.count('stream_processed_events', str(min(len(env.detects), 12)))
                if api_mode:
                    delivered = list(stream.served)
                    ctx.count('api_lists_per_process', str(min(sum(1 for x in delivered if x.startswith('LIST:')), 4)))
                summary.append({'process': pi, 'worker_limit': proc['worker_limit'], 'stream': delivered, 'owed': owed,
                                'calls': [[c['ix'], c['uid'], c['reason'], c['outcome']] for c in calls]})
                case = {'history': name, 'stream': spec, 'process': pi, 'runs': copy.deepcopy(summary)}
                for ix in resumes:
                    per: dict[str, int] = {}
                    for c in calls:
                        if c['ix'] == ix and c['outcome'] == 'ok':
                            per[c['uid']] = per.get(c['uid'], 0) + 1
                    for u in uids:
                        n = per.get(u, 0)
                        if u in owed:
                            ctx.count('stream_resumed', str(min(n, 2)))
                            if n != 1 and W.objs[u] is not None and not W.deleting(W.objs[u]):
                                ctx.fail('an object that existed, was handled before and carried no unfinished progress when the operator '
                                         'process started did not get its resume handler run to completion exactly once in that process '
                                         '(judged at quiescence, through the real watcher and workers)',
                                         {**case, 'uid': u, 'registration': ix}, observed=n, expected=1,
                                         sig='resume-missed-end-to-end' if n == 0 else 'resume-twice-end-to-end')
                        elif n > 0 and spec['states'][u] == 'never' and pi == 0:
                            ctx.fail('a resume handler ran for an object that was never handled before', {**case, 'uid': u, 'registration': ix},
                                     observed=n, sig='resume-on-create')
                if len(owed) >= 2 and any(ph.get('behind') for ph in proc['phases']):
                    ctx.nontriv(['stream', spec, pi])
    finally:
        watching.infinite_watch = orig_watch
        kapi.get, kapi.stream = orig_get, orig_stream
        W.stream = None
        vloop.close_loop(loop)
        env.world = None
    ctx.sample({'stream': [f"limit={p['worker_limit']}: " + ' '.join(s['stream'][:10]) for p, s in zip(spec['processes'], summary)]}, limit=4)


def run_stream_histories(ctx: fw.Ctx, env: Env, n: int) -> None:
    r = ctx.rng
    fixed = {'decls': [{'kind': 'resume', 'fn': 'fn0', 'id': 'h0', 'sel': False, 'script': ['ok'], 'slow': 0.25}],
             'uids': ['uid-fa', 'uid-fb'], 'states': {'uid-fa': 'handled', 'uid-fb': 'handled'},
             'processes': [{'worker_limit': 1, 'phases': [{'a': 'listing', 'behind': [{'uid': 'uid-fb', 'what': 'status'}]}]},
                           {'worker_limit': None, 'phases': [{'a': 'listing', 'behind': [{'uid': 'uid-fa', 'what': 'status'}]}]}]}
    run_stream_history(ctx, env, fixed, 'stream:fixed')
    for hi in range(n):
        run_stream_history(ctx, env, gen_stream_spec(r, hi), f'stream:{hi}')
    # the same, with the stream produced by the real watching.infinite_watch / continuous_watch over a fake LIST + WATCH
    fixed_api = {'api': True, 'decls': fixed['decls'], 'uids': ['uid-ga', 'uid-gb'], 'states': {'uid-ga': 'handled', 'uid-gb': 'handled'},
                 'processes': [{'worker_limit': None, 'list_failures': 1, 'fail_kind': 'connection',
                                'phases': [{'a': 'listing', 'behind': []}, {'a': 'listing', 'behind': [{'uid': 'uid-ga', 'what': 'status'}]}]},
                               {'worker_limit': 1, 'list_failures': 0, 'fail_kind': 'timeout',
                                'phases': [{'a': 'listing', 'behind': [{'uid': 'uid-gb', 'what': 'status'}]}, {'a': 'disconnect'},
                                           {'a': 'edit', 'uid': 'uid-ga', 'settle': True}]}]}
    run_stream_history(ctx, env, fixed_api, 'api:fixed')
    for hi in range(n):
        run_stream_history(ctx, env, gen_api_spec(r, hi), f'api:{hi}')


# --------------------------------------------------------------------------------------------
# Known findings
# --------------------------------------------------------------------------------------------

def match_f1401(f: dict) -> bool:
    """F1401: the second success of a FILTERED resume handler, with a handling step of the same object in between (same
    process, cycle still open: cause.initial) for which the handler's filter did not match — its finished record was
    purged there as an 'extra' of another purpose."""
    if f['sig'] != 'resume-twice':
        return False
    c = f['case']
    inv = c.get('invocation') or {}
    ix, uid, epoch = inv.get('registration'), c.get('uid'), c.get('epoch')
    if ix is None or not c['registry'][ix].get('sel'):
        return False
    steps = [t for t in c['trace'] if t.get('uid') == uid and t.get('epoch') == epoch]
    oks = [n for n, t in enumerate(steps) if [ix, 'ok'] in [list(x) for x in t['invoked']]]
    if len(oks) < 2:
        return False
    between = steps[oks[-2] + 1:oks[-1]]
    return any(t['reached'] and t['initial'] and t['reason'] in ('update', 'resume', 'delete') and ix not in t['match']
               and ix not in t['selected'] for t in between)


# --------------------------------------------------------------------------------------------
# Entry point (called by c14.function_level)
# --------------------------------------------------------------------------------------------

def load_corpus() -> list[dict]:
    out = []
    d = fw.ROOT / 'corpus' / 'C14'
    if d.is_dir():
        for f in sorted(d.glob('fn_*.json')):
            out.append(json.loads(f.read_text()))
    return out


def replay(ctx: fw.Ctx, body: dict) -> bool:
    """Re-run a function-level replay file: a recorded history (case.replay), or the deterministic tables / key sequences."""
    case = body.get('case') or {}
    ctx.matchers.update({'F1401': match_f1401})
    D: dict[str, list[fw.Case]] = {'resume_step': [], 'resume_trace': [], 'resume_cycle': []}
    with Env() as env:
        if isinstance(case, dict) and 'stream' in case:
            run_stream_history(ctx, env, case['stream'], str(case.get('history', 'replay')))
        elif isinstance(case, dict) and 'replay' in case:
            run_history(ctx, env, D, case['replay'], ctx.rng, str(case.get('history', 'replay')))
        else:
            run_keys(ctx, env, ctx.scale(60, 600))
            run_detect_table(ctx, env)
            run_select_table(ctx, env, ctx.scale(12, 80))
    for f in ctx.failures[:10]:
        print('  still failing:', f['sig'], '-', f['what'])
    for k in ctx.known_hits:
        print('  known finding reproduced:', k)
    sig = body.get('sig')
    return any(sig is None or f['sig'] == sig for f in ctx.failures) or bool(ctx.known_hits)


def is_function_level_replay(body: dict) -> bool:
    case = body.get('case')
    return isinstance(case, dict) and 'scenario' not in case and body.get('kind') == 'failing-input'


def differential(ctx: fw.Ctx) -> None:
    ctx.matchers.update({'F1401': match_f1401})
    ok, logtxt = fw.build_models(['Model/Resume.v', 'Model/ResumeCycle.v'])
    if not ok:
        ctx.correspondence_break('model build', logtxt[-1500:])
        return
    D: dict[str, list[fw.Case]] = {'resume_step': [], 'resume_trace': [], 'resume_cycle': []}
    with Env() as env:
        D['resume_key'] = run_keys(ctx, env, ctx.scale(60, 600))
        D['resume_detect'] = run_detect_table(ctx, env)
        D['resume_decl'] = run_decl_table(ctx, env)
        D['resume_select'] = run_select_table(ctx, env, ctx.scale(12, 80))
        run_histories(ctx, env, ctx.scale(160, 1500), D, load_corpus())
        run_stream_histories(ctx, env, ctx.scale(60, 600))
    for name in ('resume_key', 'resume_detect', 'resume_decl', 'resume_select', 'resume_step', 'resume_trace'):
        ctx.differential(name, HEADER, D[name], shard=150 if name != 'resume_trace' else 40)
    ctx.differential('resume_cycle', HEADER_RC, D['resume_cycle'], shard=120)
