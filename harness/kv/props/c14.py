"""C14 — resume handlers run once per object per operator process."""
from __future__ import annotations

from kv import cycle_monitors as cm, cycle_runner as cr, cycle_sim as cs, framework as fw

RULE = cr.RULE_HISTORY
MONITORS = [cm.mon_c14]


def gen(r, i):
    sc = cs.gen_scenario(r, n_actions=14, daemons=False,
                         weights={'gone410': 2.5, 'disconnect': 2.5, 'stop_restart': 2.0, 'kill_restart': 1.5, 'recreate': 0.2})
    if not [h for h in sc['handlers'] if h['kind'] == 'resume']:
        sc['handlers'].append({'kind': 'resume', 'id': 'r0', 'script': cs.gen_script(r, max_fail=1), 'kwargs': {'backoff': 1}})
    return sc


def run(ctx: fw.Ctx) -> int:
    ctx.proofs()
    function_level(ctx)
    cr.run_histories(ctx, ctx.scale(350, 8000), MONITORS, gen=gen)
    return ctx.finish(RULE, level_note=['closed loop: real kopf.operator() against harness/kv/fakeapi.py'])


def function_level(ctx: fw.Ctx) -> None:
    try:
        from kv.props import c14_model
    except ImportError:
        ctx.correspondence_break('D:resume', 'harness/kv/props/c14_model.py is missing')
        return
    c14_model.differential(ctx)


def replay(ctx: fw.Ctx, body: dict) -> bool:
    try:
        from kv.props import c14_model
        if c14_model.is_function_level_replay(body):
            return c14_model.replay(ctx, body)
    except ImportError:
        pass
    return cr.replay_scenario(ctx, body, MONITORS)
