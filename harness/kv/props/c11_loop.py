"""C11, deepening round — ties for Model/AttemptsApply.v and Model/AttemptsBatch.v.

  D:apply   the real application.apply (patch -> sleep -> touch) over (patch empty?, delays, stream-pressure time)
            against [apply_plan]; the API call underneath (patching.patch_obj) is replaced by a recording fake
  D:closed  the closed loop of ONE change handler with nobody else touching the object: the real
            process_changing_cause + the real application.apply in one coroutine, the fake server echoing every
            patch/touch as the next event; cycles (start, end), entries and closing against [pcl_trace]
Helper module of kv.props.c11 (same owner).
"""
from __future__ import annotations

import asyncio
from typing import Any

from kv import canon, clock, coqio as cq, framework as fw, vloop
from kv.props import c11 as M

K = M.K
HEADER = M.HEADER + 'From KV Require Import Model.AttemptsApply Model.AttemptsBatch.\n'
TOUCH_KEY = 'kopf.zalando.org/touch-dummy'


class FakePatching:
    """Stands in for kopf._cogs.clients.patching.patch_obj inside this process: merges, records, returns the body."""

    def __init__(self, raw: dict) -> None:
        self.raw = raw
        self.requests: list[dict] = []

    async def __call__(self, *, settings: Any, resource: Any, namespace: Any, name: Any, patch: Any, logger: Any, **_: Any) -> Any:
        p = dict(patch)
        touch = (p.get('metadata', {}).get('annotations', {}) or {}).get(TOUCH_KEY)
        self.requests.append({'at': M.to_ms(asyncio.get_running_loop().time()), 'touch': touch is not None,
                              'keys': sorted(p)})
        self.raw = canon.merge7386(self.raw, p)
        return self.raw, None

    def __enter__(self) -> 'FakePatching':
        from kopf._cogs.clients import patching
        if not asyncio.iscoroutinefunction(patching.patch_obj):
            raise RuntimeError('observation point missing: patching.patch_obj is not a coroutine function')
        self.module, self.orig = patching, patching.patch_obj
        patching.patch_obj = self      # type: ignore[assignment]
        return self

    def __exit__(self, *exc: Any) -> None:
        self.module.patch_obj = self.orig


RAW = {'apiVersion': 'kopf.dev/v1', 'kind': 'Kex', 'metadata': {'name': 'n', 'namespace': 'ns', 'uid': 'u'}, 'spec': {'x': 1}}


def c_applied(patched: bool, slept: int, touched: bool, applied: bool) -> str:
    return f'(mkAp {cq.cbool(patched)} {cq.cZ(slept)} {cq.cbool(touched)} {cq.cbool(applied)})'


# --------------------------------------------------------------------------------------
# D:apply
# --------------------------------------------------------------------------------------

def part_apply(ctx: fw.Ctx) -> None:
    K.load()
    from kopf._core.actions import application
    r = ctx.rng
    cases: list[fw.Case] = []
    delay_sets = [[], [0], [250], [500, 250], [250, 0], [1000], [599875], [600000], [600125], [900000, 700000], [-250], [1500, 2000, 750]]
    wakes = [None, -1, 0, 125, 375, 875, 599750, 600250, 10 ** 7]
    settings = M.settings_with(M.DEFAULT_BACKOFF)
    combos = [(p, d, w) for p in (False, True) for d in delay_sets for w in wakes]
    if not ctx.thorough:
        combos = [c for i, c in enumerate(combos) if c[2] in (None, 0, 125, 875, 599750) or i % 3 == 0]
    for has_patch, delays, wake in combos:
        fake = FakePatching(dict(RAW))
        t0 = 1000
        out: dict = {}

        async def go() -> None:
            body = K.bodies.Body(fake.raw)
            patch = K.patches.Patch({'status': {'x': 1}} if has_patch else {}, body=body)
            pressure = None
            if wake is not None:
                pressure = asyncio.Event()
                if wake <= 0:
                    pressure.set()
                else:
                    asyncio.get_running_loop().call_at(M.sec(t0 + wake), pressure.set)
            res = await application.apply(settings=settings, resource=K.RES, body=body, patch=patch,
                                          delays=[M.sec(d) for d in delays], logger=K.logger, stream_pressure=pressure)
            out['applied'] = res[0]

        with fake:
            res, end, finished = M.run_loop(go, t0, t0 + 2 * 10 ** 7)
        if not finished or isinstance(res, BaseException):
            ctx.fail('application.apply did not return', {'patch': has_patch, 'delays': delays, 'wake': wake}, repr(res), sig='not-finished')
            continue
        reqs = fake.requests
        patched = any(not q['touch'] for q in reqs)
        touched = any(q['touch'] for q in reqs)
        slept = end - t0
        data = {'patch_nonempty': has_patch, 'delays': delays, 'pressure_set_at': wake, 'requests': reqs, 'slept': slept,
                'applied': out.get('applied')}
        ctx.count('apply_branch', f"patch={has_patch} delay={'none' if not delays else 'zero' if min(delays) == 0 else 'capped' if min(delays) > 600000 else 'neg' if min(delays) < 0 else 'pos'} "
                                  f"-> patched={patched} touched={touched} slept={'0' if slept == 0 else 'cap' if slept == 600000 else 'part' if wake is not None and 0 < slept == wake else 'full'}")
        call = f'apply_plan {cq.cbool(has_patch)} {cq.clist(cq.cZ(d) for d in delays)} {M.coz(wake)}'
        cases.append(fw.Case(f'applied_eqb ({call}) {c_applied(patched, slept, touched, bool(out.get("applied")))}', data, diag=call))
        # ---- monitors: what C11 needs of apply ("is retried": the object is woken up when the delay is over)
        d = min(delays) if delays else None
        if d is not None and not reqs and (wake is None or wake >= min(max(d, 0), 600000)):
            ctx.fail('a delayed handler is pending but apply neither patched nor touched the object: nothing will wake it up', data,
                     sig='not-retried')
        for q in reqs:
            if q['touch'] and d is not None and q['at'] - t0 < min(max(d, 0), 600000):
                ctx.fail('the object is touched before the requested delay has elapsed', data, sig='retry-too-soon')
        if touched and wake is not None and slept > 0 and max(wake, 0) < slept:   # a zero-length sleep cannot be interrupted
            ctx.fail('touched although new changes arrived during the sleep', data, sig='touch-after-interrupt')
    ctx.differential('apply', HEADER, cases, shard=400)


# --------------------------------------------------------------------------------------
# D:closed
# --------------------------------------------------------------------------------------

LONG_DELAYS = M.DELAYS + [900000, 1300000]


def closed_loop(h: dict, script: list, t0: int, variant: int, max_cycles: int = 60) -> tuple[list, list, bool, list, bool]:
    """-> (cycles [(start, end)], entries, closed, requests, finished)"""
    from kopf._core.actions import application
    fn = M.Scripted(script, variant)
    reg = K.registries.OperatorRegistry()
    reg._changing.append(K.handlers.ChangingHandler(
        id='chg', selector=K.references.Selector(K.references.EVERYTHING), old=None, new=None, field_needs_change=None,
        initial=None, deleted=None, requires_finalizer=None, reason=K.causes.Reason.CREATE, **M.RESOURCE_KW,
        **M.handler_kwargs(h, fn.fn)))
    settings = M.settings_with(M.DEFAULT_BACKOFF)
    storage = settings.persistence.progress_storage
    fake = FakePatching(dict(RAW))
    cycles: list[tuple[int, int]] = []
    state = {'closed': False}

    async def go() -> None:
        loop = asyncio.get_running_loop()
        for _ in range(max_cycles):
            ta = M.to_ms(loop.time())
            body = K.bodies.Body(fake.raw)
            patch = K.patches.Patch({}, body=body)
            cause = K.causes.ChangingCause(resource=K.RES, indices={}, logger=K.logger, memo=K.ephemera.Memo(), body=body, patch=patch,
                                           initial=False, reason=K.causes.Reason.CREATE, old=None, new={'spec': {'x': 1}})
            delays = await K.processing.process_changing_cause(lifecycle=K.lifecycles.asap, registry=reg, settings=settings,
                                                               memory=K.inventory.ResourceMemory(), cause=cause)
            cycles.append((ta, M.to_ms(loop.time())))
            before = len(fake.requests)
            await application.apply(settings=settings, resource=K.RES, body=body, patch=patch, delays=list(delays),
                                    logger=K.logger, stream_pressure=None)
            if not delays:      # handling is done: records purged, last-handled stored; the echo brings no cause
                state['closed'] = storage.fetch(key='chg', body=K.bodies.Body(fake.raw)) is None
                return
            if len(fake.requests) == before:
                return          # neither patched nor touched: nothing of ours will wake the object up

    with fake:
        res, end, finished = M.run_loop(go, t0, t0 + 10 ** 8)
    if finished and isinstance(res, BaseException):
        raise res
    return cycles, [tuple(c) for c in fn.calls], state['closed'], fake.requests, finished


def part_closed(ctx: fw.Ctx) -> None:
    K.load()
    r = ctx.rng
    n = ctx.scale(110, 3000)
    env = M.c_env('T', M.DEFAULT_BACKOFF)
    cases: list[fw.Case] = []
    corpus = [
        ({'errors': None, 'retries': None, 'timeout': None, 'backoff': None}, [(('temp', 1300000), 250), (('ok',), 0)]),   # > 2 keep-alive wake-ups
        ({'errors': None, 'retries': 3, 'timeout': None, 'backoff': 250}, [(('arb',), 0)] * 5),
        ({'errors': None, 'retries': None, 'timeout': 2000, 'backoff': 750}, [(('arb',), 250)] * 5),
    ]
    for i in range(n):
        if M.too_many_hangs(ctx):
            break
        if i < len(corpus):
            h, script = corpus[i]
        else:
            h = M.gen_cfg(r)
            script = [((a[0], r.choice(LONG_DELAYS)) if a[0] in ('temp', 'child') and r.random() < 0.3 else a, d) for a, d in M.gen_script(r, 5)]
            if r.random() < 0.6:      # mostly cases in which something IS retried: generous limits, retryable failures first
                h = {'errors': r.choice([None, 'T']), 'retries': r.choice([None, 3, 4]), 'timeout': r.choice([None, None, 3000]),
                     'backoff': r.choice([None, 250, 750])}
                script = [(r.choice([('temp', r.choice(LONG_DELAYS)), ('arb',), ('child', r.choice(M.DELAYS))]), r.choice(M.DURS))
                          for _ in range(r.choice([1, 2, 3]))] + script
        t0 = r.choice([1000, 50000])
        cycles, calls, closed, reqs, finished = closed_loop(h, script, t0, i)
        case = {'driver': 'closed-loop', 'handler': h, 'script': script, 't0': t0}
        at = M.script_at(script)
        ctx.count('driver', 'closed-loop')
        ctx.count('closed_loop_cycles', str(min(len(cycles), 12)))
        idle = sum(1 for (a, b) in cycles if not any(c[0] == a for c in calls))
        ctx.count('closed_loop_idle_cycles', str(min(idle, 8)))
        ctx.count('closed_loop_touches', str(min(sum(1 for q in reqs if q['touch']), 8)))
        if M.nontrivial(script):
            ctx.nontriv(['closed', h, script])
        if i == 0:
            ctx.sample({**case, 'cycles': cycles, 'entries': calls, 'requests': reqs})
        if not finished:
            ctx.fail('the closed loop did not come to rest (busy loop, or 10^5 virtual seconds)', case, {'cycles': cycles[:20]}, sig='not-finished')
            continue
        # the property on the closed loop: every temporary failure below the limits IS retried, at the requested time
        M.check_series(ctx, case, h, at, calls, 0, M.DEFAULT_BACKOFF, complete=True)
        if not closed:
            ctx.fail('the closed loop stopped before the handling cycle was finished: nothing wakes the object up', case,
                     {'cycles': cycles, 'entries': calls, 'requests': reqs[-3:]}, sig='not-retried')
        for j in range(1, len(calls)):
            req = M.requested_delay(h, at(j - 1), M.DEFAULT_BACKOFF)
            if req is not None and calls[j][0] != calls[j - 1][2] + max(0, req):
                ctx.count('closed_loop', 'retry later than the requested delay')    # allowed by the text; the model says: never
        fuel = len(cycles) + 3
        term = (f'pcl_matches {cq.cnat(fuel)} {env} {M.c_cfg(h)} {cq.cZ(t0)} {M.c_script(script)} '
                f'{cq.clist(f"({cq.cZ(a)}, {cq.cZ(b)})" for a, b in cycles)} {M.c_obs(calls)} {cq.cbool(closed)}')
        cases.append(fw.Case(term, {**case, 'cycles': cycles, 'entries': calls, 'closed': closed},
                             diag=f'map cycle_of (pcl_trace {cq.cnat(fuel)} {env} {M.c_cfg(h)} {cq.cZ(t0)} (pinit {cq.cZ(t0)}) {M.c_script(script)})'))
    ctx.differential('closed', HEADER, cases, shard=120)
    ctx.cov['traces_validated_against_impl'] += len(cases)


# --------------------------------------------------------------------------------------
# D:supersession — the cause changes while the handler sleeps off its delay/backoff
# --------------------------------------------------------------------------------------

def part_supersession(ctx: fw.Ctx) -> None:
    """Histories of processing cycles of ONE handler id in which one cause supersedes another before the handling is
    finished: resume -> update (the on-resume handler mixed into the update of an object this process has not fully
    handled yet: after a restart), update -> delete and create -> update (one id registered for both causes).  The
    record is re-purposed (State.with_purpose(reason, handlers=...)) — with events arriving before the delay is over and
    restarts (new loop-clock origin) in between.  Monitor: the property text on the call log and virtual time; tie:
    the persisted driver with PRepurpose labels, stored record after every step."""
    K.load()
    r = ctx.rng
    n = ctx.scale(90, 2500)
    env = M.c_env('T', M.DEFAULT_BACKOFF)
    R = K.causes.Reason
    cases: list[fw.Case] = []
    corpus = [   # the demo of the seeded change C11_4: TemporaryError(delay=4 s) on resume, the spec is edited 1 s later
        ('resume-update', {'errors': None, 'retries': None, 'timeout': None, 'backoff': None}, [(('temp', 4000), 0), (('ok',), 0)], 1, 1000),
        ('update-delete', {'errors': None, 'retries': None, 'timeout': None, 'backoff': 2000}, [(('arb',), 250), (('ok',), 0)], 1, 500),
    ]
    for i in range(n):
        if M.too_many_hangs(ctx):
            break
        if i < len(corpus):
            scenario, h, script, switch_at, early = corpus[i]
        else:
            scenario = r.choice(['resume-update', 'update-delete', 'create-update'])
            h = {'errors': r.choice([None, None, 'T']), 'retries': r.choice([None, None, 3, 4]), 'timeout': r.choice([None, None, 3000]),
                 'backoff': r.choice([None, 250, 750])}
            script = [(r.choice([('temp', r.choice([250, 500, 1000, 1500, 4000])), ('arb',), ('temp', None)]), r.choice(M.DURS))
                      for _ in range(r.choice([1, 2, 3]))] + M.gen_script(r, 3)
            switch_at = r.choice([1, 1, 2, 3])
            early = None
        fn = M.Scripted(script, i)
        reg = K.registries.OperatorRegistry()
        common = dict(selector=K.references.Selector(K.references.EVERYTHING), old=None, new=None, field_needs_change=None,
                      deleted=None, requires_finalizer=None, **M.RESOURCE_KW, **M.handler_kwargs(h, fn.fn))
        if scenario == 'resume-update':
            reg._changing.append(K.handlers.ChangingHandler(id='chg', reason=None, initial=True, **common))
            phases = [(R.RESUME, True), (R.UPDATE, True)]
        else:
            first, second = (R.UPDATE, R.DELETE) if scenario == 'update-delete' else (R.CREATE, R.UPDATE)
            reg._changing.append(K.handlers.ChangingHandler(id='chg', reason=first, initial=None, **common))
            reg._changing.append(K.handlers.ChangingHandler(id='chg', reason=second, initial=None, **common))
            phases = [(first, False), (second, False)]
        settings = M.settings_with(M.DEFAULT_BACKOFF)
        storage = settings.persistence.progress_storage
        raw = {'apiVersion': 'kopf.dev/v1', 'kind': 'Kex', 'metadata': {'name': 'n', 'namespace': 'ns', 'uid': 'u'}, 'spec': {'x': 1}}
        t0 = r.choice([1000, 50000])
        wall, origin = t0, r.choice([0, 250])
        labels: list[str] = []
        schedule: list[dict] = []
        closed = hung = False
        ncalls = 0
        repurposed = 0
        slept_through = 0
        for step in range(len(script) * 3 + 10):
            reason, initial = phases[1] if step >= switch_at else phases[0]
            if r.random() < 0.25 or (scenario == 'resume-update' and step == 0):
                origin = wall - r.choice([0, 125, 1000, 30000])       # a (re)started operator process
                labels.append('(PRestart, %s)' % M.c_prec(M.rec_fields(storage.fetch(key='chg', body=K.bodies.Body(raw)))))
                schedule.append({'restart': True})
            before = storage.fetch(key='chg', body=K.bodies.Body(raw))
            if before is not None and before.get('purpose') not in (None, reason.value):
                labels.append('(PRepurpose, %s)' % M.c_prec(M.rec_fields(before)))
                repurposed += 1
                sleeping = before.get('delayed') is not None and M.rec_fields(before)['delayed'] > wall
                slept_through += 1 if sleeping else 0
                ctx.count('supersession', f"{scenario}: record {'sleeping' if sleeping else 'due'} when the cause changes")
            try:
                delays, raw, end = M.one_cycle(reg, settings, raw, wall, origin, reason=reason, initial=initial)
            except M.CycleHang as e:
                ctx.fail('processing cycle did not finish (busy loop)', {'driver': 'supersession', 'scenario': scenario, 'handler': h,
                                                                          'script': script}, str(e), sig='not-finished')
                hung = True
                break
            rec = storage.fetch(key='chg', body=K.bodies.Body(raw))
            called = len(fn.calls) > ncalls
            tc, te = (fn.calls[-1][0], fn.calls[-1][2]) if called else (wall, wall)
            a = M.script_at(script)(ncalls) if called else ('ok',)
            ncalls = len(fn.calls)
            labels.append(f'(PCycle {cq.cZ(wall)} {cq.cZ(tc)} {cq.cZ(te)} {cq.cZ(te)} {M.c_raised(a)}, {M.c_prec(M.rec_fields(rec))})')
            schedule.append({'cycle_at': wall, 'cause': reason.value, 'entered': called, 'delays': delays})
            if not delays:
                closed = rec is None
                break
            nxt = end + max(0, min(delays))
            if step + 1 == switch_at and nxt - end >= 250:
                # the change that brings the new cause arrives while the handler still sleeps
                nxt = end + (early if early is not None and early < nxt - end else M.Q * r.randrange(0, (nxt - end) // M.Q))
            elif r.random() < 0.3 and nxt - end >= 250:
                nxt = end + M.Q * r.randrange(0, (nxt - end) // M.Q)
            wall = max(nxt, end)
        if hung:
            continue
        calls = [tuple(c) for c in fn.calls]
        case = {'driver': 'supersession', 'scenario': scenario, 'handler': h, 'script': script, 't0': t0, 'schedule': schedule}
        ctx.count('driver', 'supersession')
        ctx.count('supersession_repurposings', str(min(repurposed, 3)))
        if repurposed and M.nontrivial(script):
            ctx.nontriv(['supersession', scenario, h, script, schedule])
        if i == 0:
            ctx.sample({**case, 'entries': calls})
        # the property, judged from the call log and virtual time: no attempt starts sooner than the requested delay /
        # backoff after the previous failed attempt of the same handler in the same handling cycle; count; timeout; ...
        M.check_series(ctx, case, h, M.script_at(script), calls, 0, M.DEFAULT_BACKOFF, complete=closed)
        term = f'prun_matches {env} {M.c_cfg(h)} {cq.cZ(t0)} {cq.clist(labels)} {M.c_obs(calls)} {cq.cbool(closed)}'
        cases.append(fw.Case(term, {**case, 'entries': calls, 'closed': closed}))
    ctx.differential('supersession', HEADER, cases, shard=120)
    ctx.cov['traces_validated_against_impl'] += len(cases)
