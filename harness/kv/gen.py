"""Generators of structured, mostly valid inputs. Every random choice comes from the rng given."""
from __future__ import annotations

import json
import random
from typing import Any

WORDS = ['alpha', 'beta', 'x', 'y', 'zz', 'naïve', 'ключ', '日本', 'a b', 'q-1', 'under_score', 'Dot.Name', 'UPPER']
KEYS = ['a', 'b', 'c', 'field', 'x.y', 'p/q', 't~l', 'ключ', 'sub', 'items', 'n', 'value', '']
ID_ALPHABET = 'abcdefghijklmnopqrstuvwxyzABCDEFGHIJKLMNOPQRSTUVWXYZ0123456789_./<>-'
ID_SPECIAL = '_./<>-'
RECORD_FIELDS = ('started', 'stopped', 'delayed', 'purpose', 'retries', 'success', 'failure', 'message', 'subrefs')


class Gen:
    def __init__(self, rng: random.Random) -> None:
        self.r = rng

    # ---- JSON values (no floats: outside the model; strings never look like JSON text) ----
    def scalar(self) -> Any:
        r = self.r
        k = r.randrange(8)
        if k == 0:
            return None
        if k == 1:
            return r.choice([True, False])
        if k in (2, 3):
            return r.choice([0, 1, 2, -1, 7, 100, 2 ** 40])
        return r.choice(WORDS + ['', 'v', 'w'])

    def json(self, depth: int = 3, allow_null: bool = True) -> Any:
        r = self.r
        if depth <= 0 or r.random() < 0.35:
            v = self.scalar()
            while v is None and not allow_null:
                v = self.scalar()
            return v
        if r.random() < 0.3:
            return [self.json(depth - 1) for _ in range(r.choice([0, 1, 2, 3]))]
        return self.obj(depth - 1)

    def obj(self, depth: int = 2, nkeys: tuple[int, ...] = (0, 1, 2, 3)) -> dict:
        r = self.r
        out: dict[str, Any] = {}
        for _ in range(r.choice(nkeys)):
            out[r.choice(KEYS)] = self.json(depth)
        return out

    # ---- handler ids over [A-Za-z0-9_./<>-] ----
    def handler_id(self) -> str:
        r = self.r
        n = r.choice([1, 2, 3, 5, 8, 13, 20, 40, 55, 56, 57, 58, 59, 60, 61, 62, 63, 64, 65, 66, 70, 100, 150, 253, 300])
        style = r.randrange(6)
        if style == 0:   # python-ish function names with sub-handler paths and field suffixes
            parts = []
            while len('/'.join(parts)) < n:
                parts.append(r.choice(['create_fn', 'update', 'on_resume', 'fn', 'sub', 'reconcile', '<lambda>',
                                       'handler1', 'spec.field', 'status.x', '_private', 'fn_', 'a' * r.choice([1, 30, 70])]))
            s = '/'.join(parts)[:n]
        elif style == 1:
            s = ''.join(r.choice(ID_ALPHABET) for _ in range(n))
        elif style == 2:  # boundary characters of each class
            mid = ''.join(r.choice(ID_ALPHABET) for _ in range(max(0, n - 2)))
            s = (r.choice(ID_ALPHABET) + mid + r.choice(ID_ALPHABET))[:max(1, n)]
        elif style == 3:  # long ids sharing a long prefix
            s = ('shared_prefix_' * 30)[:max(0, n - 3)] + ''.join(r.choice('abc/._') for _ in range(3))
            s = s[-n:] if len(s) > n else s
        elif style == 4:
            s = ''.join(r.choice(ID_SPECIAL + 'ab') for _ in range(n))
        else:
            s = ''.join(r.choice('abcXYZ019') for _ in range(n))
        return s or 'h'

    # ---- progress records ----
    def timestamp(self) -> str:
        r = self.r
        return f'2020-0{r.randrange(1, 9)}-1{r.randrange(0, 9)}T1{r.randrange(0, 9)}:0{r.randrange(0, 9)}:5{r.randrange(0, 9)}.{r.randrange(0, 999999):06d}'

    def record(self) -> dict:
        r = self.r
        rec: dict[str, Any] = {'started': self.timestamp()}
        total = r.random() < 0.8     # kopf's own records always carry every field (None when unset)
        for k, mk in [('stopped', self.timestamp), ('delayed', self.timestamp),
                      ('purpose', lambda: r.choice(['create', 'update', 'delete', 'resume'])),
                      ('retries', lambda: r.choice([0, 1, 2, 17])),
                      ('success', lambda: r.choice([True, False])),
                      ('failure', lambda: r.choice([True, False])),
                      ('message', lambda: r.choice(['boom', 'Ошибка: не готово', 'quote " and \\ and \n newline', '', '€'])),
                      ('subrefs', lambda: [self.handler_id() for _ in range(r.choice([0, 1, 2]))])]:
            x = r.random()
            if x < 0.45:
                rec[k] = mk()
            elif x < 0.7 or total:
                rec[k] = None
        return rec

    # ---- bodies ----
    def labels(self) -> dict:
        r = self.r
        return {k: r.choice(['v', 'w', '', 'x-1']) for k in r.sample(['app', 'tier', 'l1', 'l2', 'example.com/role'], r.choice([0, 1, 2]))}

    def user_annotations(self) -> dict:
        r = self.r
        pool = ['note', 'example.com/owner', 'team', 'kubectl.kubernetes.io/last-applied-configuration',
                'other.io/thing', 'kopf-managed', 'x/kopf-managed-not', 'a/b/c']
        out = {}
        for k in r.sample(pool, r.choice([0, 0, 1, 2, 3])):
            out[k] = json.dumps(self.obj(1), separators=(',', ':')) if 'last-applied' in k else r.choice(WORDS)
        return out

    def body(self, extra_annotations: dict | None = None, status: Any = None, drs: bool | None = None) -> dict:
        r = self.r
        body: dict[str, Any] = {}
        if r.random() < 0.9:
            body['apiVersion'] = r.choice(['v1', 'kopf.dev/v1', 'apps/v1'])
        is_drs = r.random() < 0.15 if drs is None else drs
        if r.random() < 0.9 or is_drs:
            body['kind'] = 'ReplicaSet' if is_drs else r.choice(['KopfExample', 'Pod', 'ReplicaSet', 'Deployment'])
        md: dict[str, Any] = {}
        if r.random() < 0.95:
            md['name'] = r.choice(['obj1', 'obj2'])
            md['namespace'] = 'ns1'
            md['uid'] = f'uid-{r.randrange(100)}'
            md['resourceVersion'] = str(r.randrange(1, 5000))
            if r.random() < 0.5:
                md['generation'] = r.randrange(1, 9)
            if r.random() < 0.5:
                md['creationTimestamp'] = '2020-01-01T00:00:00Z'
            if r.random() < 0.3:
                md['managedFields'] = [self.obj(1)]
        if is_drs:
            md['ownerReferences'] = [{'kind': 'Deployment', 'name': 'd1', 'uid': 'u-d1'}]
        elif r.random() < 0.15:
            md['ownerReferences'] = [{'kind': r.choice(['Job', 'KopfExample']), 'name': 'o', 'uid': 'u'}]
        if r.random() < 0.6:
            md['labels'] = self.labels()
        anns = self.user_annotations()
        if extra_annotations:
            anns.update(extra_annotations)
        if anns or r.random() < 0.2:
            md['annotations'] = anns
        if r.random() < 0.3:
            md['finalizers'] = r.sample(['kopf.zalando.org/KopfFinalizerMarker', 'other/finalizer', 'x'], r.choice([1, 2]))
        if md or r.random() < 0.9:
            body['metadata'] = md
        if r.random() < 0.85:
            body['spec'] = self.json(3) if r.random() < 0.15 else self.obj(2)
        if status is not None:
            body['status'] = status
        elif r.random() < 0.5:
            body['status'] = self.obj(2)
        if r.random() < 0.25:
            body[r.choice(['data', 'rules', 'subsets'])] = self.json(2)
        return body
