"""Driver for the real queueing.watcher / worker / aiotasks.Scheduler under the stepped virtual-time
loop (DESIGN.md §8 C01/C07, Appendix B).  Shared by props/c01.py and props/c07.py.

Nothing of kopf is copied: the real coroutines run; only these *names* are replaced inside the
harness process while a scenario runs (restored afterwards):
  watching.infinite_watch   -> explorer-fed async generator
  queueing.Stream           -> factory giving the real Stream a logging asyncio.Queue subclass
  queueing.worker           -> plain function capturing `streams` and returning the REAL coroutine
  aiotasks.Scheduler        -> subclass logging _pending_coros / _cleaning_queue traffic and close()
  asyncio.wait_for          -> pass-through wrapper logging TimeoutError per calling coroutine
If one of these observation points disappears the driver raises ObservationMissing (fail closed).

Explorer actions (a scenario = config + list of actions):
  ('F', u[, hops])  feed the next event of object u into the watch-stream (hops = extra loop
                    iterations before the watcher sees it; no stepping is done by the action itself)
  ('G', u, type[, hops])  feed an event of the given watch-event type (ADDED / MODIFIED / DELETED / None)
  ('B',)            feed a K8s BOOKMARK event (must be ignored by the watcher)
  ('D', u[, rv])    let the in-flight processor call of u return (rv = patched resourceVersion or None)
  ('V', u)          ... return a FRESH patched resourceVersion (arms the worker's expected_version when
                    settings.persistence.consistency_timeout is non-zero)
  ('E', u[, hops])  feed the echo (an event carrying the oldest not yet echoed patched version of u)
  ('X', u)          let the in-flight processor call of u raise
  ('A',)            advance the virtual clock to the earliest timer deadline (no stepping)
  ('W', eighths)    advance the virtual clock by eighths/8 s (no stepping)
  ('s',)            one loop iteration
  ('S',)            iterate until quiescent
  ('C',)            cancel the watcher task
"""
from __future__ import annotations

import asyncio
import collections
import contextlib
import logging
import re
from typing import Any

from kv import coqio as cq, vloop


logging.getLogger('kopf').disabled = True      # the code under test logs warnings/tracebacks for injected failures
logging.getLogger('kopf._core.reactor.queueing').disabled = True
logging.getLogger('asyncio').disabled = True


class ObservationMissing(Exception):
    pass


class Config:
    def __init__(self, limit: int | None = None, indexed: bool = False, nuids: int = 3,
                 idle: float = 5.0, exit_timeout: float = 2.0, ctimeout: float = 0.0, uidless: bool = False) -> None:
        self.limit, self.indexed, self.nuids = limit, indexed, nuids
        self.idle, self.exit_timeout, self.ctimeout = idle, exit_timeout, ctimeout
        self.uidless = uidless     # objects without metadata.uid: the stream key falls back to kind/apiVersion/name/namespace

    def as_dict(self) -> dict:
        return dict(limit=self.limit, indexed=self.indexed, nuids=self.nuids, idle=self.idle,
                    exit_timeout=self.exit_timeout, ctimeout=self.ctimeout, uidless=self.uidless)

    @staticmethod
    def from_dict(d: dict) -> 'Config':
        return Config(**d)


class _LogQueue(asyncio.Queue):  # type: ignore[type-arg]
    """asyncio.Queue that reports put_nowait/get_nowait to the driver (role: 'backlog' | 'pending' | 'cleaning')."""

    def __init__(self, drv: 'Driver', role: str) -> None:
        super().__init__()
        self.drv, self.role = drv, role
        self.uid: int | None = None

    def put_nowait(self, item: Any) -> None:
        if self.full():
            self.drv.breaks.append('queue full at put: put() would suspend')
        super().put_nowait(item)
        self.drv.on_put(self, item)

    def get_nowait(self) -> Any:
        item = super().get_nowait()
        self.drv.on_get(self, item)
        return item


class Driver:
    def __init__(self, cfg: Config) -> None:
        from kopf._cogs.aiokits import aiotasks, aiotoggles
        from kopf._cogs.clients import watching
        from kopf._cogs.configs import configuration
        from kopf._cogs.structs import references
        from kopf._core.reactor import queueing
        self.q, self.watching, self.aiotasks, self.aiotoggles = queueing, watching, aiotasks, aiotoggles
        self.cfg = cfg
        self.loop = vloop.new_loop()
        self.settings = configuration.OperatorSettings()
        self.settings.queueing.worker_limit = cfg.limit
        self.settings.queueing.idle_timeout = cfg.idle
        self.settings.queueing.exit_timeout = cfg.exit_timeout
        self.settings.persistence.consistency_timeout = cfg.ctimeout
        self.resource = references.Resource('kv.test', 'v1', 'things', kind='Thing', namespaced=True)

        self.trace: list[Any] = []          # ('L', name, args...) | ('S', snapshot)
        self.breaks: list[str] = []         # correspondence problems seen by the driver itself
        self.closed = False                 # scheduler.close() entered: tracing stops
        self.tracing = True
        self.streams: dict | None = None
        self.sched: Any = None
        self.feed: asyncio.Queue | None = None
        self.next_ev = 0
        self.rv_counter = 100
        self.fed: dict[int, list[int]] = collections.defaultdict(list)       # per uid: events fed by the explorer
        self.yielded: list[int] = []                                         # events the watcher took
        self.put: dict[int, list[int]] = collections.defaultdict(list)       # per uid: events put into a backlog
        self.calls: list[dict] = []                                          # processor calls
        self.inflight: dict[int, list[dict]] = collections.defaultdict(list)
        self.ev_uid: dict[int, int] = {}
        self.ev_rv: dict[int, str | None] = {}
        self.ev_type: dict[int, Any] = {}
        self.coro_uid: dict[int, int] = {}
        self.worker_coros: list[tuple[int, Any]] = []
        self.pending_get: tuple[int, int] | None = None
        self.cancelled = False
        self.by_explorer = False
        self.cancel_time: float | None = None
        self.depletion: str | None = None    # 'done' | 'timeout'
        self.failed_uids: set[int] = set()
        self.watcher_task: asyncio.Task | None = None
        self.fresh_queue: _LogQueue | None = None
        self.new1_logged_for: int | None = None
        self.put_eos_logged = False
        self.quiescent_checks: list[dict] = []
        self.bookmarks = 0
        self.seq = 0
        self.arrive_log: list[tuple[int, int]] = []    # (uid, value of the call sequence counter at the arrival)
        self.spawn_stats: dict[str, int] = collections.Counter()
        self.unechoed: dict[int, list[str]] = collections.defaultdict(list)   # patched versions returned, echo not yet fed
        self.cons_obs: dict[int, list[tuple]] = collections.defaultdict(list)   # C07: per uid worker-side observations
        self._installed: list[tuple[Any, str, Any]] = []

    # ------------------------------------------------------------------ patching
    def _patch(self, obj: Any, name: str, new: Any) -> None:
        if not hasattr(obj, name):
            raise ObservationMissing(f'{getattr(obj, "__name__", obj)}.{name}')
        self._installed.append((obj, name, getattr(obj, name)))
        setattr(obj, name, new)

    def install(self) -> None:
        drv = self
        q, aiotasks, watching = self.q, self.aiotasks, self.watching
        real_stream, real_worker, real_sched, real_wait_for = q.Stream, q.worker, aiotasks.Scheduler, asyncio.wait_for
        if not asyncio.iscoroutinefunction(real_worker) or not asyncio.iscoroutinefunction(q.watcher):
            raise ObservationMissing('queueing.worker/watcher are not coroutine functions')
        if not hasattr(q, 'EOS') or not hasattr(watching, 'Bookmark'):
            raise ObservationMissing('queueing.EOS / watching.Bookmark')

        async def fake_infinite_watch(**kw: Any):  # type: ignore[no-untyped-def]
            assert drv.feed is not None
            while True:
                raw, hops, eid = await drv.feed.get()
                for _ in range(hops):
                    await asyncio.sleep(0)
                if eid is not None:
                    drv.yielded.append(eid)
                yield raw

        def stream_factory(*a: Any, **kw: Any) -> Any:
            s = real_stream(*a, **kw)
            if not isinstance(s.backlog, asyncio.Queue) or s.backlog.qsize() or s.backlog.maxsize:
                raise ObservationMissing('Stream.backlog is not a fresh unbounded asyncio.Queue')
            lq = _LogQueue(drv, 'backlog')
            drv.fresh_queue = lq
            return s._replace(backlog=lq)

        def worker_factory(**kw: Any) -> Any:
            if 'streams' not in kw or 'key' not in kw:
                raise ObservationMissing('worker(streams=, key=)')
            drv.streams = kw['streams']
            coro = real_worker(**kw)
            u = drv.uid_of_key(kw['key'])
            drv.coro_uid[id(coro)] = u
            drv.worker_coros.append((u, coro))
            return coro

        class LogScheduler(real_sched):  # type: ignore[misc,valid-type]
            def __init__(self, *a: Any, **kw: Any) -> None:
                super().__init__(*a, **kw)
                for attr in ('_pending_coros', '_cleaning_queue', '_running_tasks', '_closed', '_limit'):
                    if not hasattr(self, attr):
                        raise ObservationMissing(f'Scheduler.{attr}')
                if self._pending_coros.qsize() or self._cleaning_queue.qsize():
                    raise ObservationMissing('Scheduler queues not empty at construction')
                self._pending_coros = _LogQueue(drv, 'pending')
                self._cleaning_queue = _LogQueue(drv, 'cleaning')
                drv.sched = self

            async def close(self) -> None:
                drv.log('CloseScheduler')
                drv.closed = True
                await super().close()

        async def wait_for(fut: Any, timeout: Any, **kw: Any) -> Any:
            who = drv.whoami()
            if who == 'depletion':
                drv.on_depletion_wait()
            elif isinstance(who, int) and drv.tracing:
                drv.cons_obs[who].append(('wait', drv.loop.time(), timeout))
            try:
                res = await real_wait_for(fut, timeout, **kw)
            except asyncio.TimeoutError:
                drv.on_wait_timeout(who)
                raise
            if who == 'depletion':
                drv.depletion = 'done'
                drv.log('Depleted')
            return res

        self._patch(watching, 'infinite_watch', fake_infinite_watch)
        self._patch(q, 'Stream', stream_factory)
        self._patch(q, 'worker', worker_factory)
        self._patch(aiotasks, 'Scheduler', LogScheduler)
        self._patch(asyncio, 'wait_for', wait_for)

    def uninstall(self) -> None:
        for obj, name, old in reversed(self._installed):
            setattr(obj, name, old)
        self._installed.clear()

    # ------------------------------------------------------------------ identification
    def uid_of_key(self, key: Any) -> int:
        m = re.fullmatch(r'u(\d+)', str(key[1])) or re.search(r'//n(\d+)//', str(key[1]))
        if m is None:
            raise ObservationMissing(f'stream key shape: {key!r}')
        return int(m.group(1))

    def whoami(self) -> Any:
        t = asyncio.current_task()
        coro = t.get_coro() if t is not None else None
        if coro is not None and id(coro) in self.coro_uid:
            return self.coro_uid[id(coro)]
        code = getattr(coro, 'cr_code', None)
        if code is not None and code.co_name == '_wait_for_depletion':
            return 'depletion'
        return None

    # ------------------------------------------------------------------ label logging
    def log(self, name: str, *args: Any) -> None:
        if self.tracing and not self.closed:
            self.trace.append(('L', name) + args)

    def on_put(self, lq: _LogQueue, item: Any) -> None:
        if lq.role == 'backlog':
            if isinstance(item, self.q.EOS):
                if not self.put_eos_logged:
                    self.put_eos_logged = True
                    self.log('PutEOS')
                return
            u, e = self.ident(item)
            if lq.uid is None:
                if lq is not self.fresh_queue:
                    self.breaks.append('first put into a queue that is not the freshly created stream')
                lq.uid = u
                if self.new1_logged_for != e:
                    self.log('ArriveNew1', u, e)
                self.log('ArriveNew2', u, e)
                self.new2_step = self.loop.steps
            else:
                if lq.uid != u:
                    self.breaks.append(f'event of uid {u} put into the backlog of uid {lq.uid}')
                self.log('Arrive', u, e)
            self.put[u].append(e)
            self.arrive_log.append((u, self.seq))
        elif lq.role == 'pending':
            self.log('Spawn', self.coro_uid.get(id(item.coro), -1))
            # does the watcher ever suspend between the stream insertion and the queueing of the job?
            self.spawn_stats['same iteration' if getattr(self, 'new2_step', None) == self.loop.steps else 'suspended'] += 1
        elif lq.role == 'cleaning':
            self.log('Exit')

    def on_get(self, lq: _LogQueue, item: Any) -> None:
        if lq.role == 'backlog':
            if isinstance(item, self.q.EOS):
                self.log('GetEOS', lq.uid)
            else:
                u, e = self.ident(item)
                if self.pending_get is not None:
                    self.breaks.append(f'two backlog gets without a processor call in between: {self.pending_get}')
                self.pending_get = (u, e)      # the processor entry must follow in the same loop iteration
        elif lq.role == 'pending':
            u = self.coro_uid.get(id(item.coro), -1)
            self.log('Start', u)
            if self.tracing:
                self.cons_obs[u].append(('start',))

    def on_wait_timeout(self, who: Any) -> None:
        if who == 'depletion':
            self.depletion = 'timeout'
            self.log('DepletionTimeout')
        elif isinstance(who, int):
            self.log('Timeout', who)

    def on_depletion_wait(self) -> None:
        if not self.put_eos_logged:
            self.put_eos_logged = True
            self.log('PutEOS')

    def ident(self, raw: Any) -> tuple[int, int]:
        return int(raw['object']['metadata']['name'][1:]), int(raw['object']['spec']['eid'])

    # ------------------------------------------------------------------ the processor given to the watcher
    async def processor(self, *, raw_event: Any, stream_pressure: Any = None, resource_indexed: Any = None,
                        operator_indexed: Any = None, consistency_time: Any = None) -> Any:
        u, e = self.ident(raw_event)
        if self.pending_get != (u, e):
            self.breaks.append(f'processor entered for {(u, e)} but the last backlog get was {self.pending_get}')
        self.pending_get = None
        p = bool(stream_pressure.is_set()) if stream_pressure is not None else False
        backlog_nonempty = False
        if self.streams is not None:
            for key, s in self.streams.items():
                if self.uid_of_key(key) == u:
                    backlog_nonempty = any(not isinstance(x, self.q.EOS) for x in s.backlog._queue)
        self.seq += 1
        call = {'u': u, 'e': e, 'begin': self.loop.time(), 'end': None, 'pressure': p, 'ctime': consistency_time,
                'seq_begin': self.seq, 'seq_end': None,
                'rv': self.ev_rv.get(e), 'backlog_nonempty': backlog_nonempty, 'outcome': None,
                'fut': self.loop.create_future(), 'step': self.loop.steps}
        self.calls.append(call)
        self.inflight[u].append(call)
        self.log('Get', u, e, p)
        if self.tracing:
            self.cons_obs[u].append(('get', self.ev_rv.get(e), self.loop.time(), consistency_time))
        try:
            outcome = await call['fut']
        except asyncio.CancelledError:
            call['outcome'] = 'cancelled'
            self.seq += 1
            call['seq_end'] = self.seq
            call['end'] = self.loop.time()
            self.inflight[u].remove(call)
            raise
        call['end'] = self.loop.time()
        self.seq += 1
        call['seq_end'] = self.seq
        self.inflight[u].remove(call)
        if outcome[0] == 'fail':
            call['outcome'] = 'fail'
            self.failed_uids.add(u)
            self.log('Fail', u, e)
            raise RuntimeError('processor failure injected by the explorer')
        call['outcome'] = 'ok'
        call['returned'] = outcome[1]
        self.log('End', u, e)
        if self.tracing:
            self.cons_obs[u].append(('end', self.loop.time(), outcome[1]))
        return outcome[1]

    # ------------------------------------------------------------------ snapshots
    def snapshot(self) -> dict:
        streams = {}
        if self.streams is not None:
            for key, s in self.streams.items():
                items = []
                for x in s.backlog._queue:
                    items.append('EOS' if isinstance(x, self.q.EOS) else self.ident(x)[1])
                streams[self.uid_of_key(key)] = (items, bool(s.pressure.is_set()))
        pending = [self.coro_uid.get(id(j.coro), -1) for j in self.sched._pending_coros._queue] if self.sched else []
        running = len(self.sched._running_tasks) if self.sched else 0
        return {'streams': streams, 'pending': pending, 'running': running}

    def snap(self) -> None:
        if self.closed or not self.tracing:
            return
        sn = self.snapshot()
        if self.trace and self.trace[-1][0] == 'S' and self.trace[-1][1] == sn:
            return
        self.trace.append(('S', sn))

    # ------------------------------------------------------------------ stepping
    def step(self) -> None:
        self.loop.step()
        if self.pending_get is not None:
            self.breaks.append(f'a suspension point between backlog.get() and the processor call: {self.pending_get}')
            self.pending_get = None
        self.snap()

    def settle(self) -> None:
        n = 0
        while self.loop.has_ready() or self.loop.due():
            self.step()
            n += 1
            if n > 5000:
                raise vloop.Stall(f'{n} iterations without progress of virtual time at t={self.loop.time()}')

    # ------------------------------------------------------------------ scenario life cycle
    def start(self) -> None:
        self.install()
        self.feed = asyncio.Queue()
        operator_indexed = resource_indexed = None
        if self.cfg.indexed:
            operator_indexed = self.aiotoggles.ToggleSet(all)
            real_make = operator_indexed.make_toggle
            drv = self

            async def make_toggle(*a: Any, **kw: Any) -> Any:
                name = kw.get('name') or ''
                m = re.search(r"'u(\d+)'", name) or re.search(r"//n(\d+)//", name)
                if m and drv.yielded:
                    e = drv.yielded[-1]
                    drv.new1_logged_for = e
                    drv.log('ArriveNew1', int(m.group(1)), e)
                return await real_make(*a, **kw)

            async def mk() -> Any:
                return await real_make(name='resource')
            t = self.loop.spawn(mk())
            self.loop.settle()
            resource_indexed = t.result()
            operator_indexed.make_toggle = make_toggle  # type: ignore[method-assign]
        drv = self

        class WatcherTask(asyncio.Task):  # type: ignore[type-arg]
            # the watcher is cancelled either by the explorer or by the exception_handler the watcher
            # gives to the Scheduler (a failed worker): both go through Task.cancel()
            def cancel(self, msg: Any = None) -> bool:
                if drv.tracing and not drv.cancelled and not self.done():
                    drv.cancelled = True
                    drv.cancel_time = drv.loop.time()
                    drv.log('Cancel')
                return super().cancel(msg)

        self.watcher_task = WatcherTask(self.q.watcher(
            namespace=None, settings=self.settings, resource=self.resource, processor=self.processor,
            operator_indexed=operator_indexed, resource_indexed=resource_indexed), loop=self.loop, name='watcher')
        self.settle()
        if self.sched is None:
            raise ObservationMissing('the watcher did not construct aiotasks.Scheduler')

    def make_event(self, u: int, rv: str | None = None, etype: str = 'MODIFIED') -> tuple[dict, int]:
        e = self.next_ev
        self.next_ev += 1
        self.ev_uid[e] = u
        if rv is None:
            self.rv_counter += 1
            rv = str(self.rv_counter)
        self.ev_rv[e] = rv
        md = {'uid': f'u{u}', 'name': f'n{u}', 'namespace': 'ns', 'resourceVersion': rv}
        if self.cfg.uidless:
            del md['uid']
        raw = {'type': etype, 'object': {'apiVersion': 'kv.test/v1', 'kind': 'Thing', 'metadata': md, 'spec': {'eid': e}}}
        self.ev_type[e] = etype
        return raw, e

    def act(self, a: tuple) -> bool:
        """Perform one explorer action; False when it is not applicable (skipped)."""
        k = a[0]
        assert self.feed is not None
        if k == 'F':
            if self.cancelled:
                return False
            u = a[1]
            hops = a[2] if len(a) > 2 else 0
            rv = a[3] if len(a) > 3 else None
            raw, e = self.make_event(u, rv)
            self.fed[u].append(e)
            self.feed.put_nowait((raw, hops, e))
        elif k == 'G':      # feed an event of a given watch-event type: ('G', u, 'ADDED'|'MODIFIED'|'DELETED'|None[, hops])
            if self.cancelled:
                return False
            raw, e = self.make_event(a[1], None, a[2])
            self.fed[a[1]].append(e)
            self.feed.put_nowait((raw, a[3] if len(a) > 3 else 0, e))
        elif k == 'B':
            if self.cancelled:
                return False
            self.bookmarks += 1
            self.feed.put_nowait(({'type': 'BOOKMARK', 'object': {'metadata': {'resourceVersion': '1'}}}, 0, None))
        elif k == 'V':      # the in-flight processor call of u returns a fresh patched resourceVersion
            u = a[1]
            calls = [c for c in self.inflight[u] if not c['fut'].done()]
            if not calls:
                return False
            self.rv_counter += 1
            rvp = str(self.rv_counter)
            self.unechoed[u].append(rvp)
            calls[0]['fut'].set_result(('ok', rvp))
        elif k == 'E':      # the echo of the oldest not yet echoed patch of u arrives through the watch-stream
            u = a[1]
            if self.cancelled or not self.unechoed[u]:
                return False
            raw, e = self.make_event(u, self.unechoed[u].pop(0))
            self.fed[u].append(e)
            self.feed.put_nowait((raw, a[2] if len(a) > 2 else 0, e))
        elif k in ('D', 'X'):
            u = a[1]
            calls = [c for c in self.inflight[u] if not c['fut'].done()]
            if not calls:
                return False
            if k == 'D':
                calls[0]['fut'].set_result(('ok', a[2] if len(a) > 2 else None))
            else:
                calls[0]['fut'].set_result(('fail', None))
        elif k == 'A':
            t = self.loop.next_timer()
            if t is None:
                return False
            self.loop.advance_to(t)
        elif k == 'W':
            self.loop.advance_by(a[1] / 8.0)
        elif k == 's':
            if not (self.loop.has_ready() or self.loop.due()):
                return False
            self.step()
        elif k == 'S':
            self.settle()
        elif k == 'C':
            if self.cancelled or self.watcher_task is None or self.watcher_task.done():
                return False
            self.by_explorer = True
            self.watcher_task.cancel()
        else:
            raise ValueError(f'unknown action {a!r}')
        return True

    def quiescent_mark(self, final: bool = False) -> None:
        """The loop is quiescent: the model must have no internal step enabled either (acceptor item TQ)."""
        if self.tracing and not self.closed:
            self.trace.append(('Q', final))

    def quiescent_record(self) -> None:
        """Facts of the implementation at a quiescent point, for the monitors."""
        if self.closed or self.sched is None:
            return
        sn = self.snapshot()
        live = collections.Counter(u for u, c in self.worker_coros if c.cr_frame is not None)
        self.quiescent_checks.append({
            't': self.loop.time(), 'streams': sn['streams'], 'pending': sn['pending'], 'running': sn['running'],
            'live_workers': dict(live), 'inflight': sorted(u for u, cs in self.inflight.items() if cs),
            'cancelled': self.cancelled})

    def finish_all(self, horizon: float = 60.0) -> None:
        """Epilogue: let every in-flight call return, let timers run, until nothing is left to happen
        (bounded by `horizon` virtual seconds)."""
        end = self.loop.time() + horizon
        for _ in range(10000):
            self.settle()
            progressed = False
            for u in list(self.inflight):
                for c in list(self.inflight[u]):
                    if not c['fut'].done():
                        c['fut'].set_result(('ok', None))
                        progressed = True
            if progressed:
                continue
            t = self.loop.next_timer()
            if t is None or t > end:
                break
            self.loop.advance_to(t)
        self.settle()

    def stop(self) -> None:
        self.tracing = False     # the teardown (cancelling whatever is left) is not part of the scenario
        try:
            t = self.watcher_task
            if t is not None and t.done() and not t.cancelled():
                self.watcher_exc = t.exception()   # retrieved: the RuntimeError after a failed worker is expected
            vloop.close_loop(self.loop)
        finally:
            self.uninstall()

    # ------------------------------------------------------------------ encoding for the Coq acceptor
    def coq_trace(self) -> str:
        uni = cq.clist(cq.cnat(u) for u in range(self.cfg.nuids))
        out = []
        for it in self.trace:
            if it[0] == 'L':
                out.append('TL ' + coq_label(it[1:]))
            elif it[0] == 'Q':
                out.append(f'TQ {uni} {cq.cbool(it[1])}')
            else:
                sn = it[1]
                streams = cq.clist(
                    cq.cpair(cq.cnat(u), cq.cpair(cq.clist(coq_item(x) for x in items), cq.cbool(p)))
                    for u, (items, p) in sorted(sn['streams'].items()))
                out.append(f"TS (mkSnap {uni} {streams} {cq.clist(cq.cnat(max(u, 0)) for u in sn['pending'])} {cq.cnat(sn['running'])})")
        return cq.clist(out)

    def coq_hist(self) -> str:
        items = []
        for u in range(self.cfg.nuids):
            items.append(cq.cpair(cq.clist(cq.cnat(e) for e in self.put_traced[u]),
                                  cq.clist(cq.cnat(e) for e in self.ended_traced[u])))
        return cq.clist(items)

    @property
    def put_traced(self) -> dict[int, list[int]]:
        d: dict[int, list[int]] = collections.defaultdict(list)
        for it in self.trace:
            if it[0] == 'L' and it[1] in ('Arrive', 'ArriveNew2'):
                d[it[2]].append(it[3])
        return d

    @property
    def ended_traced(self) -> dict[int, list[int]]:
        d: dict[int, list[int]] = collections.defaultdict(list)
        for it in self.trace:
            if it[0] == 'L' and it[1] == 'End':
                d[it[2]].append(it[3])
        return d


def coq_item(x: Any) -> str:
    return 'EOS' if x == 'EOS' else f'(Ev {cq.cnat(x)})'


def coq_label(l: tuple) -> str:
    name, args = l[0], l[1:]
    if name in ('Arrive', 'ArriveNew1', 'ArriveNew2', 'End', 'Fail'):
        return f'(L{name} {cq.cnat(max(args[0], 0))} {cq.cnat(args[1])})'
    if name == 'Get':
        return f'(LGet {cq.cnat(args[0])} {cq.cnat(args[1])} {cq.cbool(args[2])})'
    if name in ('Spawn', 'Start', 'GetEOS', 'Timeout'):
        return f'(L{name} {cq.cnat(max(args[0], 0))})'
    if name in ('Exit', 'Cancel', 'PutEOS', 'Depleted', 'DepletionTimeout', 'CloseScheduler'):
        return f'L{name}'
    raise ValueError(f'unknown label {l!r}')


def run_scenario(cfg: Config, actions: list[tuple], epilogue: bool = True) -> Driver:
    """Run one scenario on the real code. The caller reads the Driver's logs; always stops the loop."""
    drv = Driver(cfg)
    try:
        with vloop.running(drv.loop):
            drv.start()
            drv.performed = []  # type: ignore[attr-defined]
            for a in actions:
                ok = drv.act(tuple(a))
                drv.performed.append(ok)  # type: ignore[attr-defined]
                if a[0] == 'S' and ok:
                    drv.quiescent_record()
                    drv.quiescent_mark()
            if epilogue:
                drv.finish_all()
                drv.quiescent_record()
                drv.quiescent_mark(final=True)
    finally:
        drv.stop()
    return drv
