"""Common machinery of every property check: proof layer, Coq case evaluation,
known findings, verdict, replay files, evidence.  See DESIGN.md §3, §7.
"""
from __future__ import annotations

import concurrent.futures
import fcntl
import hashlib
import json
import os
import pathlib
import random
import re
import subprocess
import sys
import time
from typing import Any, Callable, Iterable, Sequence

from kv import coqio

ROOT = pathlib.Path(__file__).resolve().parents[2]
COQ = ROOT / 'coq'
BUILD = ROOT / 'build'
EVIDENCE = pathlib.Path(os.environ['VERIF_EVIDENCE_DIR']) if os.environ.get('VERIF_EVIDENCE_DIR') else ROOT / 'evidence'
REPO = pathlib.Path(os.environ.get('KOPF_REPO', '/repo'))
JOBS = int(os.environ.get('VERIF_JOBS', '8'))

OBLIGATION_RE = re.compile(
    r'^\s*(?:Local\s+|Global\s+|#\[[^\]]*\]\s*)*(Theorem|Lemma|Corollary|Example|Fact|Proposition|Remark)\s+([A-Za-z_][\w\']*)',
    re.M)
FORBIDDEN_RE = re.compile(
    r'\b(Admitted|admit|Axiom|Axioms|Parameter|Parameters|Conjecture|Conjectures|Admit Obligations|'
    r'Unset Guard Checking|Unset Positivity Checking|Unset Universe Checking|bypass_check|type-in-type|impredicative-set)\b')


def log(*a: Any) -> None:
    print(*a, file=sys.stderr, flush=True)


# --------------------------------------------------------------------------------------
# Coq project handling
# --------------------------------------------------------------------------------------

class CoqLock:
    def __enter__(self) -> 'CoqLock':
        COQ.mkdir(exist_ok=True)
        self.f = open(COQ / '.lock', 'w')
        fcntl.flock(self.f, fcntl.LOCK_EX)
        return self

    def __exit__(self, *exc: Any) -> None:
        fcntl.flock(self.f, fcntl.LOCK_UN)
        self.f.close()


def coq_sources() -> list[str]:
    files = []
    for sub in ('Base', 'Model', 'Gen', 'Proofs', 'Props'):
        d = COQ / sub
        if d.is_dir():
            files += sorted(f'{sub}/{p.name}' for p in d.glob('*.v'))
    return files


def ensure_makefile() -> None:
    """(Re)generate _CoqProject and Makefile when the file list changed. Caller holds the lock."""
    text = '-R . KV\n-arg -w -arg -notation-overridden,-deprecated-hint-without-locality,-deprecated-instance-without-locality\n' \
           + '\n'.join(coq_sources()) + '\n'
    proj = COQ / '_CoqProject'
    if not proj.exists() or proj.read_text() != text or not (COQ / 'Makefile').exists():
        proj.write_text(text)
        subprocess.run(['coq_makefile', '-f', '_CoqProject', '-o', 'Makefile'], cwd=COQ, check=True,
                       stdout=subprocess.DEVNULL, stderr=subprocess.DEVNULL)


def coq_deps() -> dict[str, set[str]]:
    """file.v -> set of file.v it directly depends on (inside the project)."""
    srcs = coq_sources()
    out = subprocess.run(['coqdep', '-R', '.', 'KV'] + srcs, cwd=COQ, capture_output=True, text=True).stdout
    deps: dict[str, set[str]] = {s: set() for s in srcs}
    for line in out.splitlines():
        if ':' not in line:
            continue
        lhs, rhs = line.split(':', 1)
        targets = [t for t in lhs.split() if t.endswith('.vo')]
        if not targets:
            continue
        src = targets[0][:-1]  # .vo -> .v
        src = src[2:] if src.startswith('./') else src
        if src not in deps:
            continue
        for d in rhs.split():
            d = d[2:] if d.startswith('./') else d
            if d.endswith('.vo') and d[:-1] in deps and d[:-1] != src:
                deps[src].add(d[:-1])
    return deps


def cone_of(target: str) -> list[str]:
    deps = coq_deps()
    seen: list[str] = []

    def visit(f: str) -> None:
        if f in seen:
            return
        for d in sorted(deps.get(f, ())):
            visit(d)
        seen.append(f)

    visit(target)
    return seen


def lemma_at(file: pathlib.Path, line: int) -> str | None:
    try:
        lines = file.read_text().splitlines()
    except OSError:
        return None
    for i in range(min(line, len(lines)) - 1, -1, -1):
        m = OBLIGATION_RE.match(lines[i])
        if m:
            return m.group(2)
    return None


ERR_RE = re.compile(r'File "([^"]+)", line (\d+), characters [\d-]+:\s*\n\s*Error', re.M)


class ProofResult:
    def __init__(self) -> None:
        self.ok = False
        self.obligations = 0
        self.discharged = 0
        self.names: list[str] = []
        self.failed: list[str] = []       # names of lemmas/files which no longer check
        self.assumptions: dict[str, str] = {}
        self.forbidden: list[str] = []
        self.cmd = ''
        self.log = ''
        self.files: list[str] = []
        self.wall = 0.0


def build_proofs(prop_file: str, gen: Callable[[], None] | None = None, timeout: int = 900) -> ProofResult:
    """Full (.vo) build of the dependency cone of Props/Cxx.v; the property file itself is
    always recompiled so that `Print Assumptions` output is from this run."""
    t0 = time.time()
    res = ProofResult()
    with CoqLock():
        if gen is not None:
            (COQ / 'Gen').mkdir(exist_ok=True)
            gen()
        ensure_makefile()
        cone = cone_of(prop_file)
        res.files = cone
        for f in cone:
            text = (COQ / f).read_text()
            names = [m.group(2) for m in OBLIGATION_RE.finditer(text)]
            res.names += [f'{f}:{n}' for n in names]
            code = re.sub(r'\(\*.*?\*\)', '', text, flags=re.S)
            for m in FORBIDDEN_RE.finditer(code):
                res.forbidden.append(f'{f}:{m.group(1)}')
            depth = 0          # a Variable/Hypothesis/Context outside every Section declares an axiom
            for line in code.split('\n'):
                if re.match(r'\s*(Section|Module)\s+\w+', line) and not re.match(r'\s*Module\s+\w+\s*:=', line):
                    depth += 1
                elif re.match(r'\s*End\s+\w+\s*\.', line):
                    depth -= 1
                elif depth <= 0 and re.match(r'\s*(Variable|Variables|Hypothesis|Hypotheses|Context)\b', line):
                    res.forbidden.append(f'{f}:{line.strip()[:40]} (outside a section)')
        res.obligations = len(res.names)
        deps_vo = [f + 'o' for f in cone if f != prop_file]
        res.cmd = f'make -C coq -j{JOBS} <cone of {prop_file}: {len(cone)} files> ; coqc -R coq KV coq/{prop_file}'
        ok = True
        logtxt = ''
        if deps_vo:
            p = subprocess.run(['timeout', str(timeout), 'make', f'-j{JOBS}', '-k'] + deps_vo, cwd=COQ,
                               capture_output=True, text=True)
            logtxt += p.stdout + p.stderr
            ok = p.returncode == 0
        if ok:
            p = subprocess.run(['timeout', '300', 'coqc', '-R', '.', 'KV', '-w',
                                '-notation-overridden,-deprecated-hint-without-locality', prop_file],
                               cwd=COQ, capture_output=True, text=True)
            logtxt += p.stdout + p.stderr
            ok = p.returncode == 0
            if ok:
                res.assumptions = parse_assumptions((COQ / prop_file).read_text(), p.stdout)
        res.log = logtxt
        if not ok:
            bad_files = set()
            for m in ERR_RE.finditer(logtxt):
                fn = m.group(1)
                fn = fn[2:] if fn.startswith('./') else fn
                path = COQ / fn
                name = lemma_at(path, int(m.group(2)))
                res.failed.append(f'{fn}:{name or "line " + m.group(2)}')
                bad_files.add(fn)
            if not res.failed:
                res.failed.append(f'{prop_file}:build failed (timeout or make error)')
            # discharged: obligations in files of the cone whose .vo is up to date
            done = 0
            for f in cone:
                vo = COQ / (f + 'o')
                if vo.exists() and vo.stat().st_mtime >= (COQ / f).stat().st_mtime and f not in bad_files:
                    done += sum(1 for n in res.names if n.startswith(f + ':'))
            res.discharged = min(done, res.obligations - 1)
        else:
            res.discharged = res.obligations
        if res.forbidden:
            ok = False
            res.failed += [f'forbidden vernacular {x}' for x in res.forbidden]
        res.ok = ok
    res.wall = time.time() - t0
    return res


def parse_assumptions(src: str, out: str) -> dict[str, str]:
    """Pair each `Print Assumptions X.` of the source with the corresponding output block."""
    names = re.findall(r'Print Assumptions\s+([\w\'.]+)\s*\.', src)
    blocks = re.split(r'(?m)^(?=Closed under the global context|Axioms:|Section Variables:)', out)
    blocks = [b.strip() for b in blocks if b.strip().startswith(('Closed under', 'Axioms:', 'Section Variables:'))]
    res = {}
    for i, n in enumerate(names):
        res[n] = blocks[i] if i < len(blocks) else '(no output)'
    return res


def build_models(files: Sequence[str], gen: Callable[[], None] | None = None, timeout: int = 600) -> tuple[bool, str]:
    with CoqLock():
        if gen is not None:
            (COQ / 'Gen').mkdir(exist_ok=True)
            gen()
        ensure_makefile()
        p = subprocess.run(['timeout', str(timeout), 'make', f'-j{JOBS}'] + [f + 'o' for f in files], cwd=COQ,
                           capture_output=True, text=True)
        return p.returncode == 0, p.stdout + p.stderr


# --------------------------------------------------------------------------------------
# Evaluating the model on cases inside Coq
# --------------------------------------------------------------------------------------

class Case:
    """One differential case: `term` is a Coq term of type bool that must compute to true
    (typically `eqb (F input) expected_from_implementation`); `diag` optionally a term whose
    value is printed when the case fails; `data` is the JSON-able description for replay."""
    __slots__ = ('term', 'diag', 'data', 'extra')

    def __init__(self, term: str, data: Any, diag: str | None = None) -> None:
        self.term, self.data, self.diag = term, data, diag
        self.extra: dict = {}      # further Coq terms about the same case (statistics), never part of the verdict


def _run_shard(path: pathlib.Path) -> tuple[int, str]:
    p = subprocess.run(['timeout', '600', 'coqc', '-R', str(COQ), 'KV', '-w', '-all', str(path)],
                       capture_output=True, text=True, cwd=path.parent)
    return p.returncode, p.stdout + p.stderr


def coq_eval(workdir: pathlib.Path, name: str, header: str, cases: Sequence[Case], shard: int = 400
             ) -> tuple[list[int], list[str]]:
    """Returns (indices of cases that computed to false, error texts of shards that did not compile)."""
    workdir.mkdir(parents=True, exist_ok=True)
    for old in workdir.glob(f'cases_{name}_*'):
        old.unlink()
    shards = []
    for si, start in enumerate(range(0, len(cases), shard)):
        chunk = cases[start:start + shard]
        path = workdir / f'cases_{name}_{si}.v'
        with open(path, 'w') as f:
            f.write(header.rstrip() + '\n')
            for i, c in enumerate(chunk):
                f.write(f'Definition c{i} : bool := {c.term}.\n')
            f.write('Definition kv_all : list bool := ' + coqio.clist(f'c{i}' for i in range(len(chunk))) + '.\n')
            f.write('Eval vm_compute in (kv_bad_indices kv_all).\n')
        shards.append((start, path))
    bad: list[int] = []
    errors: list[str] = []
    with concurrent.futures.ThreadPoolExecutor(max_workers=JOBS) as ex:
        for (start, path), (rc, out) in zip(shards, ex.map(lambda sp: _run_shard(sp[1]), shards)):
            if rc != 0:
                errors.append(f'{path.name}: rc={rc}: {out[-2000:]}')
                continue
            lists = coqio.parse_nat_list(out)
            if not lists:
                errors.append(f'{path.name}: no result parsed: {out[-500:]}')
                continue
            bad += [start + i for i in lists[-1]]
    return sorted(bad), errors


def coq_show(workdir: pathlib.Path, name: str, header: str, terms: Sequence[str]) -> list[str]:
    """Evaluate terms and return Coq's printed values (diagnostics only, never parsed)."""
    workdir.mkdir(parents=True, exist_ok=True)
    path = workdir / f'show_{name}.v'
    with open(path, 'w') as f:
        f.write(header.rstrip() + '\n')
        for t in terms:
            f.write(f'Eval vm_compute in ({t}).\n')
    rc, out = _run_shard(path)
    if rc != 0:
        return [f'(coqc failed: {out[-800:]})'] * len(terms)
    vals = re.split(r'(?m)^\s*= ', out)[1:]
    return [v.strip() for v in vals] + ['?'] * (len(terms) - len(vals))


# --------------------------------------------------------------------------------------
# Known findings
# --------------------------------------------------------------------------------------

def load_findings(prop: str) -> list[dict]:
    path = ROOT / 'known_findings.json'
    found = json.loads(path.read_text()).get('findings', []) if path.exists() else []
    have = {f.get('id') for f in found}
    for frag in sorted((ROOT / 'findings.d').glob('*.json')):   # development: fragments not yet merged by tools/mkfindings.py
        f = json.loads(frag.read_text())
        if f.get('id') not in have:
            found.append(f)
    return [f for f in found if f.get('property') == prop or prop in f.get('also_properties', [])]


# --------------------------------------------------------------------------------------
# The context of one check run
# --------------------------------------------------------------------------------------

class Ctx:
    def __init__(self, prop: str, tier: str, seed: int) -> None:
        self.prop = prop
        self.tier = tier
        self.seed = seed
        self.rng = random.Random(seed * 1000003 + int(prop[1:]))
        random.seed(seed)
        self.t0 = time.time()
        self.work = BUILD / (prop + os.environ.get('VERIF_WORK_SUFFIX', ''))   # suffix: parallel runs against scratch trees
        self.work.mkdir(parents=True, exist_ok=True)
        for stale in list(self.work.glob('replay_*.json')) + list(self.work.glob('failures.json')):
            if '--replay' not in sys.argv:
                stale.unlink()
        self.broken: list[dict] = []          # proof obligations / correspondences that no longer check
        self.failures: list[dict] = []        # property failures on the implementation (monitor layer)
        self.known_hits: dict[str, dict] = {}  # finding id -> first matching failure
        self.proof: ProofResult | None = None
        self.cov: dict[str, Any] = {'evaluations': 0, 'samples': [], 'traces_validated_against_impl': 0}
        self.nontrivial: set[str] = set()
        self.hist: dict[str, dict[str, int]] = {}
        self.assumptions: list[str] = []
        self.findings = load_findings(prop)
        self.matchers: dict[str, Callable[[dict], bool]] = {}
        self.notes: list[str] = []

    @property
    def thorough(self) -> bool:
        return self.tier == 'thorough'

    def scale(self, quick: int, thorough: int) -> int:
        return thorough if self.thorough else quick

    # ---- proof layer
    def proofs(self, prop_file: str | None = None, gen: Callable[[], None] | None = None,
               extra: Sequence[str] = ()) -> ProofResult:
        prop_file = prop_file or f'Props/{self.prop}.v'
        res = build_proofs(prop_file, gen=gen)
        for more in extra:      # further property files (e.g. history-level statements shared between properties)
            r2 = build_proofs(more, gen=None)
            new = [n for n in r2.names if n not in res.names]
            res.names += new
            res.obligations += len(new)
            res.discharged += len(new) if r2.ok else 0
            res.files += [f for f in r2.files if f not in res.files]
            res.assumptions.update(r2.assumptions)
            res.failed += r2.failed
            res.forbidden += r2.forbidden
            res.log += r2.log
            res.wall += r2.wall
            res.cmd += f' ; same for {more}'
            res.ok = res.ok and r2.ok
        if res.ok and self.tier == 'thorough':
            self.coqchk([prop_file] + list(extra), res)
        self.proof = res
        log(f'[{self.prop}] proof layer: {res.discharged}/{res.obligations} obligations in {len(res.files)} files, '
            f'{"ok" if res.ok else "BROKEN"} ({res.wall:.1f}s)')
        if not res.ok:
            for n in res.failed:
                self.broken.append({'kind': 'proof', 'name': n})
            (self.work / 'proof_build.log').write_text(res.log)
        else:
            for thm, txt in res.assumptions.items():
                if not txt.startswith('Closed under the global context'):
                    self.notes.append(f'Print Assumptions {thm}: {txt}')
        return res

    def coqchk(self, prop_files: Sequence[str], res: ProofResult) -> None:
        """Thorough tier: the compiled property files and everything they depend on are re-checked by Coq's independent
        checker; `-o` lists the axioms of every loaded library and any use of type-in-type / unguarded fixpoints /
        assumed positivity."""
        t = time.time()
        mods = ['KV.' + f[:-2].replace('/', '.') for f in prop_files]
        with CoqLock():
            p = subprocess.run(['timeout', '1800', 'coqchk', '-silent', '-o', '-R', '.', 'KV'] + mods, cwd=COQ, capture_output=True, text=True)
        out = p.stdout + p.stderr
        summary = out[out.find('CONTEXT SUMMARY'):] if 'CONTEXT SUMMARY' in out else out[-2000:]
        fields = {}
        for m in re.finditer(r'\* ([^:\n]+):\s*(.*?)(?=\n\* |\Z)', summary, flags=re.S):
            fields[m.group(1).strip()] = ' '.join(m.group(2).split())
        self.cov['coqchk'] = {'cmd': 'coqchk -silent -o -R coq KV ' + ' '.join(mods), 'exit': p.returncode, 'summary': fields,
                              'wall_s': round(time.time() - t, 1)}
        clean = p.returncode == 0 and all(fields.get(k) == '<none>' for k in
                                          ('Axioms', 'Constants/Inductives relying on type-in-type',
                                           'Constants/Inductives relying on unsafe (co)fixpoints', 'Inductives whose positivity is assumed'))
        log(f'[{self.prop}] coqchk -o: exit {p.returncode}, axioms: {fields.get("Axioms")} ({time.time() - t:.1f}s)')
        if p.returncode != 0:
            res.ok = False
            res.failed.append('coqchk: ' + out[-400:])
        elif not clean:
            self.notes.append(f'coqchk -o reports: {fields}')

    # ---- correspondence layer
    def differential(self, name: str, header: str, cases: Sequence[Case], shard: int = 400,
                     max_report: int = 5) -> list[int]:
        """Evaluate the Coq side of a differential. Registers a correspondence break if any case
        computes to false (or the cases do not compile). Returns failing indices."""
        if not cases:
            return []
        t = time.time()
        bad, errors = coq_eval(self.work, name, header, cases, shard=shard)
        self.cov['evaluations'] += len(cases)
        self.count('differential', name, len(cases))
        log(f'[{self.prop}] D:{name}: {len(cases)} cases, {len(bad)} differ, {len(errors)} shard errors ({time.time() - t:.1f}s)')
        if errors:
            self.broken.append({'kind': 'correspondence', 'name': f'D:{name}', 'detail': 'model cases did not evaluate',
                                'errors': errors[:3]})
        if bad:
            shown = bad[:max_report]
            diags = [cases[i].diag for i in shown]
            vals = coq_show(self.work, name, header, [d for d in diags if d]) if any(diags) else []
            it = iter(vals)
            examples = []
            for i in shown:
                examples.append({'index': i, 'case': cases[i].data,
                                 'model_says': next(it, None) if cases[i].diag else None})
            self.broken.append({'kind': 'correspondence', 'name': f'D:{name}', 'mismatches': len(bad),
                                'of': len(cases), 'examples': examples})
        return bad

    def correspondence_break(self, name: str, detail: Any) -> None:
        self.broken.append({'kind': 'correspondence', 'name': name, 'detail': detail})

    # ---- monitor layer
    def fail(self, what: str, case: Any, observed: Any = None, expected: Any = None, sig: str | None = None) -> None:
        """A property failure observed on the implementation."""
        f = {'what': what, 'case': case, 'observed': observed, 'expected': expected, 'sig': sig or what}
        for kf in self.findings:
            if kf.get('status') != 'open':
                continue
            m = self.matchers.get(kf['id'])
            if m is not None and m(f):
                self.known_hits.setdefault(kf['id'], f)
                return
        self.failures.append(f)

    # ---- statistics
    def count(self, hist: str, key: str, n: int = 1) -> None:
        h = self.hist.setdefault(hist, {})
        h[key] = h.get(key, 0) + n

    def sample(self, x: Any, limit: int = 5) -> None:
        if len(self.cov['samples']) < limit:
            self.cov['samples'].append(x)

    def nontriv(self, key: Any) -> None:
        self.nontrivial.add(hashlib.sha1(json.dumps(key, sort_keys=True, default=str).encode()).hexdigest())

    # ---- verdict
    def finish(self, rule: str, level_note: Sequence[str] = ()) -> int:
        wall = time.time() - self.t0
        lines: list[str] = []
        for kf in self.findings:
            if kf.get('status') == 'open' and kf['id'] in self.known_hits:
                lines.append(f"KNOWN-FINDING: property={self.prop} {kf['id']}: {kf['what']}")
        rc = 0
        replay_path = None
        if self.failures:
            f = min(self.failures, key=lambda f: len(json.dumps(f['case'], default=str)))
            replay_path = self.write_replay({'kind': 'failing-input', **f,
                                             'broken': self.broken, 'other_failures': len(self.failures) - 1})
            lines.append(f'VIOLATION property={self.prop} replay={replay_path}')
            rc = 1
        elif self.broken:
            replay_path = self.write_replay({'kind': 'no-failing-input-found', 'broken': self.broken,
                                             'what': 'a proof obligation or a model/implementation correspondence no '
                                                     'longer checks; the search over the implementation found no input '
                                                     'on which the property itself fails'})
            lines.append(f'VIOLATION property={self.prop} replay={replay_path} no-failing-input-found')
            rc = 1
        self.write_evidence(rule, wall, rc, level_note)
        bysig: dict[str, int] = {}
        for f in self.failures:
            bysig[f['sig']] = bysig.get(f['sig'], 0) + 1
        if bysig:
            log(f'[{self.prop}] failures by signature: {bysig}')
            (self.work / 'failures.json').write_text(json.dumps(self.failures[:200], indent=1, default=str))
        for l in lines:
            print(l, flush=True)
        log(f'[{self.prop}] {self.tier} done in {wall:.1f}s: evaluations={self.cov["evaluations"]} '
            f'nontrivial={len(self.nontrivial)} failures={len(self.failures)} broken={len(self.broken)} '
            f'known={list(self.known_hits)} -> exit {rc}')
        return rc

    def write_replay(self, body: dict) -> str:
        body = {'property': self.prop, 'seed': self.seed, 'tier': self.tier, **body}
        txt = json.dumps(body, indent=1, sort_keys=True, default=str)
        h = hashlib.sha1(txt.encode()).hexdigest()[:12]
        path = self.work / f'replay_{h}.json'
        path.write_text(txt)
        return str(path)

    def write_evidence(self, rule: str, wall: float, rc: int, level_note: Sequence[str]) -> None:
        EVIDENCE.mkdir(exist_ok=True)
        pr = self.proof
        cov = dict(self.cov)
        cov['distinct_nontrivial'] = len(self.nontrivial)
        cov['rule'] = rule
        cov['histograms'] = self.hist
        if pr is not None:
            cov['obligations'] = pr.obligations
            cov['discharged'] = pr.discharged
            cov['checker_cmd'] = pr.cmd
            cov['proof_files'] = pr.files
            cov['print_assumptions'] = pr.assumptions
            cov['forbidden_vernacular_found'] = pr.forbidden
            cov['proof_wall_s'] = round(pr.wall, 2)
            tb = ['Coq 8.16.1 kernel (coqc, full .vo build; vm_compute used; native_compute not used)',
                  'axioms per property theorem: see print_assumptions (verbatim output of this run)',
                  'hand-written Gallina model tied to /repo by the correspondence check of this run '
                  '(Python harness harness/kv, generators, encoders kv/coqio.py)',
                  'CPython 3.12 (/venv), PYTHONHASHSEED=0']
            cov['trusted_base'] = tb + list(level_note)
        cov['known_findings_reproduced'] = sorted(self.known_hits)
        cov['broken'] = [b.get('name') for b in self.broken]
        if self.notes:
            cov['notes'] = self.notes
        if not cov['samples']:
            cov['samples'] = ['(no case recorded)']
        if 'exhaustive' in cov and not isinstance(cov['exhaustive'], bool):   # schema: a boolean; details go beside it
            cov['exhaustive_spaces'] = cov['exhaustive']
            cov['exhaustive'] = bool(cov['exhaustive'])
        ev = {
            'property_id': self.prop,
            'tier': self.tier,
            'seed': self.seed,
            'level': 'proof',
            'coverage': cov,
            'assumptions': self.assumptions,
            'wall_s': round(wall, 2),
            'violations': len(self.failures) + (1 if (self.broken and not self.failures) else 0),
        }
        (EVIDENCE / f'{self.prop}.json').write_text(json.dumps(ev, indent=1, sort_keys=True, default=str) + '\n')


STD_HEADER = '''From Coq Require Import ZArith List String Bool Ascii.
From KV Require Import Base.Harness Base.Json.
Import ListNotations.
Open Scope string_scope. Open Scope Z_scope. Open Scope list_scope.
'''
