r"""Await-skeleton extractor (DESIGN.md §6-S).

Atomicity in asyncio is the absence of a suspension point between two statements.  Several
mechanisms of kopf are of the form "no await between X and Y".  This module parses the CURRENT
source of $KOPF_REPO with `ast` and emits coq/Gen/Awaits.v: for each listed coroutine one
definition `awaits_<name> : list sk` — the ordered tree of suspension points (`await`,
`async with`, `async for`, with the callee's dotted name), control structure (loops, branches,
try/except/finally, exits) and *marker statements* (the X's and Y's, recognised by shape).
The LTS models state the granularity they assume as a literal, and `Proofs/<Model>.v` proves
`awaits_<name> = <literal>` by `reflexivity`.  Inserting an `await` into an atomic region, moving
a marker across one, or removing a marker makes that lemma fail to compile (a proof obligation
breaks) or makes this extractor abort (fail-closed).

HOW TO ADD A COROUTINE (C09, C10, C17, ...): append an `Entry` to `ENTRIES` below:

    Entry(name='spawn_daemons',                       # -> Definition awaits_spawn_daemons
          path='kopf/_core/engines/daemons.py',       # relative to $KOPF_REPO
          qualname='spawn_daemons',                   # 'Class.method' for methods
          markers={'member_test': r'if handler\.id not in daemons',   # marker name -> regex that must
                   'insert': r'daemons\[handler\.id\] = .*'})         # FULLY match the statement head

The *head* of a statement is `ast.unparse` of a simple statement (one line, whitespace
normalised), or `if <test>` / `while <test>` / `for <target> in <iter>` / `try` / `with <items>`
for compound ones (`except <type>` heads are matched for handlers, `finally` for the final
block).  Every marker must match at least once, otherwise generation aborts.  Then add in your
Proofs file:  `Lemma awaits_<name>_ok : awaits_<name> = [ ...literal... ]. Proof. reflexivity. Qed.`
(get the literal from coq/Gen/Awaits.v after running `python -m kv.awaits`).

Grammar (anything else aborts): statements Expr, Assign, AnnAssign, AugAssign, Delete, Pass,
Nonlocal, Global, Return, Raise, Break, Continue, If, While, For, AsyncFor, With, AsyncWith, Try,
nested sync FunctionDef (no awaits possible; skipped), Assert.  Expressions may contain `await`
anywhere except inside lambdas/comprehensions (abort); `yield` aborts except as a bare
`yield`/`yield x` expression statement, recorded as `SYield` (a suspension point of async generators).
"""
from __future__ import annotations

import ast
import dataclasses
import os
import pathlib
import re
import sys
from typing import Iterable

from kv import coqio as cq


class SkeletonError(Exception):
    pass


@dataclasses.dataclass(frozen=True)
class Entry:
    name: str
    path: str
    qualname: str
    markers: dict[str, str]


# --------------------------------------------------------------------------------------
# The data: which coroutines, which marker shapes.  Keep alphabetical per owner.
# --------------------------------------------------------------------------------------
ENTRIES: list[Entry] = [
    # ---- C01 / C07 (Model/Queue.v, Model/Consistency.v)
    Entry('watcher', 'kopf/_core/reactor/queueing.py', 'watcher', {
        'pressure_set_existing': r'streams\[key\]\.pressure\.set\(\)',
        'keyerror': r'except KeyError',
        'insert_stream': r'streams\[key\] = Stream\(backlog=asyncio\.Queue\(\), pressure=asyncio\.Event\(\)\)',
    }),
    Entry('worker', 'kopf/_core/reactor/queueing.py', 'worker', {
        'on_timeout': r'except asyncio\.TimeoutError',
        'recheck_empty': r'if backlog\.empty\(\)',
        'eos_check': r'if isinstance\(raw_event, EOS\)',
        'version_match': r'if expected_version is not None and expected_version == get_version\(raw_event\)',
        'clear_expected': r'expected_version = None',
        'clear_ctime': r'consistency_time = None',
        'pressure_clear': r'pressure\.clear\(\)',
        'patched_check': r'if newer_patch_version is not None and settings\.persistence\.consistency_timeout',
        'set_expected': r'expected_version = newer_patch_version',
        'set_ctime': r'consistency_time = loop\.time\(\) \+ settings\.persistence\.consistency_timeout',
        'del_stream': r'del streams\[key\]',
    }),
    Entry('wait_for_depletion', 'kopf/_core/reactor/queueing.py', '_wait_for_depletion', {
        'each_stream': r'for stream in streams\.values\(\)',
    }),
    Entry('Scheduler_spawn', 'kopf/_cogs/aiokits/aiotasks.py', 'Scheduler.spawn', {
        'closed_check': r'if self\._closed',
        'notify': r'self\._condition\.notify_all\(\)',
    }),
    Entry('Scheduler_task_spawner', 'kopf/_cogs/aiokits/aiotasks.py', 'Scheduler._task_spawner', {
        'while_can_spawn': r'while self\._can_spawn\(\)',
        'take_job': r'coro, name = self\._pending_coros\.get_nowait\(\)',
        'create_task': r'task = asyncio\.create_task\(coro=coro, name=name\)',
        'add_running': r'self\._running_tasks\.add\(task\)',
    }),
    Entry('Scheduler_task_cleaner', 'kopf/_cogs/aiokits/aiotasks.py', 'Scheduler._task_cleaner', {
        'discard_running': r'self\._running_tasks\.discard\(task\)',
    }),
    Entry('Scheduler_close', 'kopf/_cogs/aiokits/aiotasks.py', 'Scheduler.close', {
        'set_closed': r'self\._closed = True',
        'cancel_each': r'task\.cancel\(\)',
    }),
    # ---- C10 (Model/Timer.v; lemma in Proofs/TimerAwaits.v)
    Entry('timer', 'kopf/_core/engines/daemons.py', '_timer', {
        'initial_delay_check': r'if handler\.initial_delay is not None',
        'main_loop': r'while not stopper\.is_set\(\)',
        'no_state_yet': r'state: progression\.State \| None = None',
        'reset_if_done': r'if state is None or \(state\.done and \(not state\[handler\.id\]\.failure\)\)',
        'fresh_state': r'state = progression\.State\.from_scratch\(\)\.with_handlers\(\[handler\]\)',
        'idle_check': r'if handler\.idle is not None',
        'idle_wait': r'while not stopper\.is_set\(\) and clock\(\) - memory\.idle_reset_time < handler\.idle',
        'idle_delay': r'delay = memory\.idle_reset_time \+ handler\.idle - clock\(\)',
        'stopped_check': r'if stopper\.is_set\(\)',
        'started': r'started = clock\(\)',
        'with_outcomes': r'state = state\.with_outcomes\(outcomes\)',
        'not_done': r'if not state\.done',
        'sharp_check': r'if handler\.interval is not None and handler\.sharp',
        'passed': r'passed_duration = clock\(\) - started',
        'remaining': r'remaining_delay = handler\.interval - passed_duration % handler\.interval',
        'interval_check': r'if handler\.interval is not None',
        'idle_only_wait': r'while memory\.idle_reset_time <= started and \(not stopper\.is_set\(\)\)',
    }),
]

# Entries of other properties live in their own modules' lists and are appended by
# `register(entries)` before `generate()` is called, or are added above by their owners.
_EXTRA: list[Entry] = []


def register(entries: Iterable[Entry]) -> None:
    for e in entries:
        if all(e.name != x.name for x in _EXTRA) and all(e.name != x.name for x in ENTRIES):
            _EXTRA.append(e)


# --------------------------------------------------------------------------------------
# Skeleton terms
# --------------------------------------------------------------------------------------
PRELUDE = '''(* GENERATED by harness/kv/awaits.py from the current kopf source on every run. DO NOT EDIT. *)
From Coq Require Import List String.
Import ListNotations.
Local Open Scope string_scope.

(* The await skeleton of a coroutine: suspension points, control structure, marker statements. *)
Inductive sk : Type :=
| SAwait (callee : string)                       (* await <callee>(...)                     *)
| SYield                                         (* yield (async generators)                *)
| SMark (name : string)                          (* a marker statement recognised by shape  *)
| SAsyncWith (callee : string) (body : list sk)  (* async with <callee>: body               *)
| SAsyncFor (callee : string) (body : list sk)   (* async for _ in <callee>: body           *)
| SLoop (body : list sk)                         (* while / for                             *)
| SIf (thn els : list sk)                        (* if / else (elif nests in els)           *)
| STry (body : list sk) (handlers : list (list sk)) (orelse final : list sk)
| SBreak | SContinue | SReturn | SRaise.
'''


def _s(x: str) -> str:
    if not all(32 <= ord(c) < 127 for c in x):
        raise SkeletonError(f'non-printable/non-ASCII text in a callee or marker name: {x!r}')
    return '"' + x.replace('"', '""') + '"'


def _l(items: list[str]) -> str:
    return cq.clist(items)


class _Extractor:
    def __init__(self, entry: Entry) -> None:
        self.entry = entry
        self.markers = {k: re.compile(v) for k, v in entry.markers.items()}
        self.hits = {k: 0 for k in entry.markers}

    # ---- expression level
    def callee(self, node: ast.expr) -> str:
        if isinstance(node, ast.Call):
            node = node.func
        try:
            txt = ast.unparse(node)
        except Exception as e:  # pragma: no cover
            raise SkeletonError(f'cannot unparse callee: {e}')
        return re.sub(r'\s+', ' ', txt)[:120]

    def expr_awaits(self, node: ast.AST | None) -> list[str]:
        """Awaits of an expression in source order (inner first for nested awaits)."""
        if node is None:
            return []
        out: list[str] = []

        def visit(n: ast.AST) -> None:
            if isinstance(n, (ast.Lambda, ast.ListComp, ast.SetComp, ast.DictComp, ast.GeneratorExp)):
                for sub in ast.walk(n):
                    if isinstance(sub, (ast.Await, ast.Yield, ast.YieldFrom)) or \
                            (isinstance(sub, ast.comprehension) and sub.is_async):
                        raise SkeletonError(f'{self.entry.name}: await/yield inside lambda/comprehension at line {n.lineno}')
                return
            if isinstance(n, (ast.Yield, ast.YieldFrom)):
                raise SkeletonError(f'{self.entry.name}: yield inside an expression at line {n.lineno}')
            if isinstance(n, ast.Await):
                visit(n.value)
                out.append(f'SAwait {_s(self.callee(n.value))}')
                return
            for c in ast.iter_child_nodes(n):
                visit(c)

        visit(node)
        return out

    # ---- marker matching
    def mark(self, head: str) -> list[str]:
        head = re.sub(r'\s+', ' ', head.strip())
        out = []
        for name, rx in self.markers.items():
            if rx.fullmatch(head):
                self.hits[name] += 1
                out.append(f'SMark {_s(name)}')
        return out

    # ---- statement level
    def block(self, stmts: list[ast.stmt]) -> list[str]:
        out: list[str] = []
        for s in stmts:
            out += self.stmt(s)
        return out

    def stmt(self, s: ast.stmt) -> list[str]:
        if isinstance(s, ast.Expr):
            if isinstance(s.value, (ast.Yield,)):
                return self.expr_awaits(s.value.value) + ['SYield']
            if isinstance(s.value, ast.Constant):
                return []  # docstring
            return self.expr_awaits(s.value) + self.mark(ast.unparse(s))
        if isinstance(s, (ast.Assign, ast.AnnAssign, ast.AugAssign)):
            if isinstance(s.value, ast.Yield):   # x = yield ...
                raise SkeletonError(f'{self.entry.name}: yield in assignment at line {s.lineno}')
            return self.expr_awaits(s.value) + self.mark(ast.unparse(s))
        if isinstance(s, (ast.Delete, ast.Assert)):
            return self.expr_awaits(s) + self.mark(ast.unparse(s))
        if isinstance(s, (ast.Pass, ast.Nonlocal, ast.Global, ast.Import, ast.ImportFrom)):
            return []
        if isinstance(s, ast.FunctionDef):
            for sub in ast.walk(s):
                if isinstance(sub, (ast.Await, ast.AsyncFor, ast.AsyncWith)):
                    raise SkeletonError(f'{self.entry.name}: await in nested sync def?')
            return []
        if isinstance(s, ast.Return):
            return self.expr_awaits(s.value) + self.mark(ast.unparse(s)) + ['SReturn']
        if isinstance(s, ast.Raise):
            return self.expr_awaits(s.exc) + self.mark(ast.unparse(s)) + ['SRaise']
        if isinstance(s, ast.Break):
            return ['SBreak']
        if isinstance(s, ast.Continue):
            return ['SContinue']
        if isinstance(s, ast.If):
            pre = self.expr_awaits(s.test) + self.mark('if ' + ast.unparse(s.test))
            thn, els = self.block(s.body), self.block(s.orelse)
            if not thn and not els:
                return pre
            return pre + [f'SIf {_l(thn)} {_l(els)}']
        if isinstance(s, ast.While):
            pre = self.mark('while ' + ast.unparse(s.test))
            body = self.expr_awaits(s.test) + self.block(s.body)
            if s.orelse:
                raise SkeletonError(f'{self.entry.name}: while/else at line {s.lineno}')
            return pre + [f'SLoop {_l(body)}']
        if isinstance(s, ast.For):
            pre = self.expr_awaits(s.iter) + self.mark(f'for {ast.unparse(s.target)} in {ast.unparse(s.iter)}')
            if s.orelse:
                raise SkeletonError(f'{self.entry.name}: for/else at line {s.lineno}')
            body = self.block(s.body)
            return pre + ([f'SLoop {_l(body)}'] if body else [])
        if isinstance(s, ast.AsyncFor):
            if s.orelse:
                raise SkeletonError(f'{self.entry.name}: async for/else at line {s.lineno}')
            pre = self.expr_awaits(s.iter) + self.mark(f'async for {ast.unparse(s.target)} in {ast.unparse(s.iter)}')
            return pre + [f'SAsyncFor {_s(self.callee(s.iter))} {_l(self.block(s.body))}']
        if isinstance(s, ast.With):
            pre: list[str] = []
            for it in s.items:
                pre += self.expr_awaits(it.context_expr)
            pre += self.mark('with ' + ', '.join(ast.unparse(i) for i in s.items))
            return pre + self.block(s.body)
        if isinstance(s, ast.AsyncWith):
            if len(s.items) != 1:
                raise SkeletonError(f'{self.entry.name}: async with of several items at line {s.lineno}')
            it = s.items[0]
            pre = self.expr_awaits(it.context_expr) + self.mark('async with ' + ast.unparse(it))
            return pre + [f'SAsyncWith {_s(self.callee(it.context_expr))} {_l(self.block(s.body))}']
        if isinstance(s, ast.Try):
            pre = self.mark('try')
            body = self.block(s.body)
            handlers = []
            for h in s.handlers:
                head = 'except' + (' ' + ast.unparse(h.type) if h.type is not None else '')
                handlers.append(_l(self.mark(head) + self.block(h.body)))
            orelse = self.block(s.orelse)
            final = (self.mark('finally') if s.finalbody else []) + self.block(s.finalbody)
            return pre + [f'STry {_l(body)} {_l(handlers)} {_l(orelse)} {_l(final)}']
        raise SkeletonError(f'{self.entry.name}: statement outside the grammar: {type(s).__name__} at line {s.lineno}')


def _find(tree: ast.Module, qualname: str) -> ast.AsyncFunctionDef:
    parts = qualname.split('.')
    scope: list[ast.stmt] = tree.body
    node: ast.AST | None = None
    for i, p in enumerate(parts):
        found = [n for n in scope if isinstance(n, (ast.ClassDef, ast.AsyncFunctionDef, ast.FunctionDef)) and n.name == p]
        if len(found) != 1:
            raise SkeletonError(f'{qualname}: expected exactly one definition of {p!r}, found {len(found)}')
        node = found[0]
        scope = node.body  # type: ignore[attr-defined]
    if not isinstance(node, ast.AsyncFunctionDef):
        raise SkeletonError(f'{qualname}: not an async def')
    return node


def extract(entry: Entry, repo: pathlib.Path) -> str:
    src = (repo / entry.path).read_text()
    tree = ast.parse(src)
    fn = _find(tree, entry.qualname)
    ex = _Extractor(entry)
    body = ex.block(fn.body)
    missing = [k for k, n in ex.hits.items() if n == 0]
    if missing:
        raise SkeletonError(f'{entry.name}: marker(s) not found in {entry.path}:{entry.qualname}: {missing}')
    return _l(body)


def render(repo: pathlib.Path | None = None) -> str:
    repo = repo or pathlib.Path(os.environ.get('KOPF_REPO', '/repo'))
    out = [PRELUDE]
    for e in ENTRIES + _EXTRA:
        try:
            term = extract(e, repo)
        except (SkeletonError, OSError, SyntaxError) as exc:
            # fail closed: the definition is absent, so every lemma about it fails to compile
            out.append(f'(* EXTRACTION FAILED for {e.name}: {str(exc).replace("*)", "* )")} *)\n')
            continue
        out.append(f'Definition awaits_{e.name} : list sk :=\n  {term}.\n')
    return '\n'.join(out)


def target() -> pathlib.Path:
    from kv import framework as fw
    return fw.COQ / 'Gen' / 'Awaits.v'


def generate() -> None:
    """Write coq/Gen/Awaits.v (only when its content changed, so `make` timestamps stay meaningful)."""
    path = target()
    path.parent.mkdir(exist_ok=True)
    text = render()
    if not path.exists() or path.read_text() != text:
        path.write_text(text)


if __name__ == '__main__':
    generate()
    sys.stdout.write(target().read_text())
