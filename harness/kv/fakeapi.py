"""An in-process stand-in for the Kubernetes API server, spoken to through the aiohttp-session
interface kopf uses (DESIGN.md §5).  Stateful objects with uid / integer resourceVersion /
finalizers / deletionTimestamp, LIST, WATCH (event log, compaction -> 410, bookmarks, injected
ERRORs and disconnects), merge-patch (RFC 7386) and JSON-patch (RFC 6902 incl. `test` -> 422)
on the main resource and on /status, faults and latency per request, actors for every write.

Assumed Kubernetes rules (trusted base, DESIGN §10): per-object monotone resourceVersions delivered
in order; a write that changes nothing produces no new version and no event; deletion with
finalizers only marks (deletionTimestamp) and the object goes away when the last finalizer is
removed; finalizers cannot be added to an object being deleted (422); with a status subresource
the main endpoint ignores `status` and /status ignores everything else; emptied
metadata.annotations/labels/finalizers disappear.
"""
from __future__ import annotations

import asyncio
import copy
import json
import urllib.parse
from typing import Any, Callable

import aiohttp

from kv import canon


class Kind:
    def __init__(self, group: str, version: str, kind: str, plural: str, namespaced: bool = True,
                 status_subresource: bool = False, verbs: tuple[str, ...] = ('list', 'watch', 'patch', 'get', 'create', 'delete')) -> None:
        self.group, self.version, self.kind, self.plural = group, version, kind, plural
        self.namespaced = namespaced
        self.status_subresource = status_subresource
        self.verbs = verbs

    @property
    def api_version(self) -> str:
        return f'{self.group}/{self.version}' if self.group else self.version

    @property
    def key(self) -> tuple[str, str, str]:
        return (self.group, self.version, self.plural)


KOPFEXAMPLE = Kind('kopf.dev', 'v1', 'KopfExample', 'kopfexamples')
NAMESPACE = Kind('', 'v1', 'Namespace', 'namespaces', namespaced=False)
CRD = Kind('apiextensions.k8s.io', 'v1', 'CustomResourceDefinition', 'customresourcedefinitions', namespaced=False)
KOPFPEERING = Kind('kopf.dev', 'v1', 'KopfPeering', 'kopfpeerings')
CLUSTERKOPFPEERING = Kind('kopf.dev', 'v1', 'ClusterKopfPeering', 'clusterkopfpeerings', namespaced=False)


class Fault:
    """What to do with one request instead of (or around) serving it."""
    def __init__(self, status: int | None = None, headers: dict | None = None, payload: Any = None,
                 exc: str | None = None, delay_before: float = 0.0, delay_after: float = 0.0,
                 apply_then_fail: bool = False) -> None:
        self.status, self.headers, self.payload = status, headers or {}, payload
        self.exc = exc                      # 'connection' | 'timeout' | None
        self.delay_before, self.delay_after = delay_before, delay_after
        self.apply_then_fail = apply_then_fail   # the server applies the write, the response is lost


class Request:
    def __init__(self, seq: int, actor: str, method: str, url: str, path: str, query: dict, payload: Any,
                 headers: dict, t: float) -> None:
        self.seq, self.actor, self.method, self.url, self.path, self.query = seq, actor, method, url, path, query
        self.payload, self.headers, self.t = payload, headers, t
        self.status: int | None = None
        self.result_rv: str | None = None
        self.target: tuple | None = None     # (kind key, namespace, name, subresource)
        self.uid: str | None = None          # uid of the object the write landed on
        self.note: str = ''
        self.order = 0
        self.before: dict | None = None      # server object before / after a write (None: absent)
        self.after: dict | None = None

    def brief(self) -> dict:
        return {'seq': self.seq, 'actor': self.actor, 'method': self.method, 'path': self.path,
                'ctype': self.headers.get('Content-Type'), 'payload': self.payload, 'status': self.status,
                't': self.t, 'rv': self.result_rv, 'uid': self.uid, 'note': self.note}


class _Content:
    def __init__(self, resp: 'Response') -> None:
        self.resp = resp

    def iter_chunked(self, n: int) -> Any:
        return self.resp._chunks()


class Response:
    def __init__(self, status: int, payload: Any = None, headers: dict | None = None, stream: 'WatchStream | None' = None) -> None:
        self.status = status
        self._payload = payload
        self.headers = {'Content-Type': 'application/json', **(headers or {})}
        self.closed = False
        self.stream = stream
        self.content = _Content(self)

    async def json(self, **_: Any) -> Any:
        return copy.deepcopy(self._payload)

    async def text(self) -> str:
        return json.dumps(self._payload)

    def raise_for_status(self) -> None:
        if self.status >= 400:
            self.close()
            raise aiohttp.ClientResponseError(request_info=None, history=(), status=self.status,  # type: ignore[arg-type]
                                              message=str(self._payload), headers=None)

    def close(self) -> None:
        self.closed = True
        if self.stream is not None:
            self.stream.close_by_client()

    def release(self) -> None:
        self.close()

    async def __aenter__(self) -> 'Response':
        return self

    async def __aexit__(self, *exc: Any) -> None:
        self.close()

    async def _chunks(self) -> Any:
        if self.stream is None:
            yield json.dumps(self._payload).encode() + b'\n'
            return
        async for chunk in self.stream.chunks():
            yield chunk


class WatchStream:
    def __init__(self, api: 'FakeAPI', kind: Kind, namespace: str | None, since: int, actor: str, timeout: float | None) -> None:
        self.api, self.kind, self.namespace, self.cursor, self.actor = api, kind, namespace, since, actor
        self.wake = asyncio.Event()
        self.closed = False
        self.client_closed = False
        self.end: str | None = None          # 'eof' | 'connection' | 'payload' : how the server side ends it
        self.inject: list[dict] = []         # raw lines injected by the environment (ERROR events, unknown types)
        self.deadline = None if timeout is None else api.now() + timeout
        self.delivered: list[tuple[int, str, str]] = []   # (rv, type, name)
        self.hold = False                    # environment holds delivery (echo delays)

    def close_by_client(self) -> None:
        self.client_closed = True
        self.closed = True
        self.wake.set()

    def terminate(self, how: str = 'eof') -> None:
        self.end = how
        self.wake.set()

    def matches(self, ev: dict) -> bool:
        return ev['kind'] == self.kind.key and (self.namespace is None or ev['ns'] == self.namespace)

    async def chunks(self) -> Any:
        api = self.api
        if self.cursor < api.compacted.get(self.kind.key, 0):
            yield (json.dumps({'type': 'ERROR', 'object': {'kind': 'Status', 'code': 410, 'reason': 'Expired',
                                                             'message': 'too old resource version'}}) + '\n').encode()
            self.closed = True
            return
        while not self.closed:
            while self.inject:
                yield (json.dumps(self.inject.pop(0)) + '\n').encode()
                if self.closed:
                    return
            if self.end is not None:
                self.closed = True
                if self.end == 'connection':
                    raise aiohttp.ClientConnectionError('fake: connection reset')
                if self.end == 'payload':
                    raise aiohttp.ClientPayloadError('fake: payload error')
                if self.end == 'timeout':
                    raise asyncio.TimeoutError()
                return
            pending = [] if self.hold else [ev for ev in api.events if ev['rv'] > self.cursor and self.matches(ev)
                                            and ev['visible_at'] <= api.now()]
            if pending:
                ev = pending[0]
                self.cursor = ev['rv']
                self.delivered.append((ev['rv'], ev['type'], ev['name']))
                api.trace('deliver', actor=self.actor, rv=ev['rv'], type=ev['type'], name=ev['name'])
                yield (json.dumps({'type': ev['type'], 'object': ev['object']}) + '\n').encode()
                continue
            if self.deadline is not None and api.now() >= self.deadline:
                self.closed = True
                return
            self.wake.clear()
            waits = [ev['visible_at'] for ev in api.events if ev['rv'] > self.cursor and self.matches(ev)]
            timeout = None
            cands = [w - api.now() for w in waits if w > api.now()]
            if self.deadline is not None:
                cands.append(self.deadline - api.now())
            if cands and not self.hold:
                timeout = max(0.0, min(cands))
            try:
                await asyncio.wait_for(self.wake.wait(), timeout=timeout)
            except asyncio.TimeoutError:
                pass


class Session:
    """What kopf sees as `aiohttp.ClientSession` (one per operator incarnation)."""

    def __init__(self, api: 'FakeAPI', actor: str) -> None:
        self.api, self.actor = api, actor
        self.closed = False
        self.dead = False            # the process was killed: nothing it sends reaches the server
        self.headers: dict[str, str] = {}
        self.unauthorized = False    # credentials revoked: every request answers 401
        self.die_after_apply = False  # the process dies right after the server applied its next write

    async def request(self, method: str, url: str, json: Any = None, headers: dict | None = None, timeout: Any = None, **_: Any) -> Response:
        if self.closed:
            raise RuntimeError('Session is closed')
        if self.dead:
            raise aiohttp.ClientConnectionError('fake: process is dead')
        return await self.api.serve(self, method.upper(), url, json, dict(headers or {}))

    async def close(self) -> None:
        self.closed = True


def status_payload(code: int, reason: str, message: str = '', details: dict | None = None) -> dict:
    return {'kind': 'Status', 'apiVersion': 'v1', 'status': 'Failure', 'code': code, 'reason': reason,
            'message': message or reason, 'details': details or {}}


class FakeAPI:
    def __init__(self, kinds: list[Kind] | None = None, latency: float = 0.0) -> None:
        self.kinds: dict[tuple[str, str, str], Kind] = {}
        for k in (kinds or [KOPFEXAMPLE]) + [NAMESPACE, CRD]:
            self.kinds[k.key] = k
        self.objects: dict[tuple, dict] = {}            # (kind key, ns, name) -> body
        self.rv = 100
        self.uid_counter = 0
        self.events: list[dict] = []                    # the change log, rv-ordered
        self.compacted: dict[tuple, int] = {}
        self.streams: list[WatchStream] = []
        self.requests: list[Request] = []
        self.writers: dict[int, str] = {}               # rv -> actor who caused it
        self.fault_hook: Callable[[Request], Fault | None] | None = None
        self.latency = latency
        self.echo_delay: Callable[[dict], float] | None = None     # delay of watch visibility per event
        self.tracelog: list[dict] = []
        self.seq = 0
        self.order = 0
        self.lists: list[dict] = []     # LIST requests served (who, when)
        self.namespaces = ['ns1']
        self.on_request: Callable[[Request], None] | None = None    # environment hook (foreign writes slipped in)

    # ------------------------------------------------------------------ helpers
    def now(self) -> float:
        try:
            return asyncio.get_running_loop().time()
        except RuntimeError:
            return asyncio.get_event_loop().time()

    def next_order(self) -> int:
        """One global sequence over requests, events and handler calls (virtual time alone does not order them)."""
        self.order += 1
        return self.order

    def trace(self, what: str, **kw: Any) -> None:
        self.tracelog.append({'t': self.now(), 'what': what, **kw})

    def session(self, actor: str) -> Session:
        return Session(self, actor)

    def get(self, kind: Kind, ns: str | None, name: str) -> dict | None:
        o = self.objects.get((kind.key, ns if kind.namespaced else None, name))
        return copy.deepcopy(o) if o is not None else None

    def _emit(self, typ: str, kind: Kind, body: dict, actor: str) -> None:
        rv = int(body['metadata']['resourceVersion'])
        self.writers[rv] = actor
        ev = {'rv': rv, 'type': typ, 'kind': kind.key, 'ns': body['metadata'].get('namespace'), 'name': body['metadata']['name'],
              'object': copy.deepcopy(body), 'actor': actor, 't': self.now(), 'visible_at': self.now(), 'order': self.next_order()}
        if self.echo_delay is not None:
            ev['visible_at'] = self.now() + max(0.0, self.echo_delay(ev))
        self.events.append(ev)
        self.trace('event', rv=rv, type=typ, name=ev['name'], actor=actor)
        for s in self.streams:
            if not s.closed:
                s.wake.set()

    def _next_rv(self) -> str:
        self.rv += 1
        return str(self.rv)

    @staticmethod
    def _normalize(body: dict) -> None:
        md = body.get('metadata')
        if isinstance(md, dict):
            for k in ('annotations', 'labels', 'finalizers', 'ownerReferences'):
                if k in md and not md[k]:
                    del md[k]

    # ------------------------------------------------------------------ environment-side operations
    def create(self, kind: Kind, ns: str | None, name: str, body: dict | None = None, actor: str = 'ext') -> dict:
        key = (kind.key, ns if kind.namespaced else None, name)
        if key in self.objects:
            raise KeyError(f'exists: {key}')
        b = copy.deepcopy(body or {})
        b.setdefault('apiVersion', kind.api_version)
        b.setdefault('kind', kind.kind)
        md = b.setdefault('metadata', {})
        md['name'] = name
        if kind.namespaced:
            md['namespace'] = ns
        self.uid_counter += 1
        md['uid'] = f'uid-{self.uid_counter}'
        md['creationTimestamp'] = '2030-01-01T00:00:00Z'
        md['generation'] = 1
        md['resourceVersion'] = self._next_rv()
        self._normalize(b)
        self.objects[key] = b
        self._emit('ADDED', kind, b, actor)
        return copy.deepcopy(b)

    def _commit(self, kind: Kind, key: tuple, old: dict, new: dict, actor: str) -> dict:
        """Store `new` as the next version of `old` (or remove the object when it was released)."""
        self._normalize(new)
        if new.get('spec') != old.get('spec'):
            new['metadata']['generation'] = int(old['metadata'].get('generation', 1)) + 1
        if new == old:
            return copy.deepcopy(old)                       # no-op write: no new version, no event
        new['metadata']['resourceVersion'] = self._next_rv()
        if new['metadata'].get('deletionTimestamp') and not new['metadata'].get('finalizers'):
            del self.objects[key]
            self._emit('DELETED', kind, new, actor)
        else:
            self.objects[key] = new
            self._emit('MODIFIED', kind, new, actor)
        return copy.deepcopy(new)

    def edit(self, kind: Kind, ns: str | None, name: str, fn: Callable[[dict], None], actor: str = 'ext') -> dict | None:
        key = (kind.key, ns if kind.namespaced else None, name)
        old = self.objects.get(key)
        if old is None:
            return None
        new = copy.deepcopy(old)
        fn(new)
        for f in ('uid', 'name', 'namespace', 'resourceVersion', 'creationTimestamp'):
            if f in old['metadata']:
                new.setdefault('metadata', {})[f] = old['metadata'][f]
        return self._commit(kind, key, old, new, actor)

    def merge_edit(self, kind: Kind, ns: str | None, name: str, patch: dict, actor: str = 'ext') -> dict | None:
        def fn(b: dict) -> None:
            merged = canon.merge7386(b, patch)
            b.clear()
            b.update(merged)
        return self.edit(kind, ns, name, fn, actor)

    def delete(self, kind: Kind, ns: str | None, name: str, actor: str = 'ext', force: bool = False) -> None:
        key = (kind.key, ns if kind.namespaced else None, name)
        old = self.objects.get(key)
        if old is None:
            return
        new = copy.deepcopy(old)
        if force:
            new['metadata'].pop('finalizers', None)
        new['metadata'].setdefault('deletionTimestamp', '2030-01-01T01:00:00Z')
        self._commit(kind, key, old, new, actor)

    def compact(self, kind: Kind, upto: int | None = None) -> None:
        """Forget the change log up to `upto` (default: everything so far): older watches get 410."""
        self.compacted[kind.key] = self.rv if upto is None else upto

    def bookmark(self, kind: Kind) -> None:
        self.rv += 1
        for s in self.streams:
            if not s.closed and s.kind.key == kind.key:
                s.inject.append({'type': 'BOOKMARK', 'object': {'kind': kind.kind, 'apiVersion': kind.api_version,
                                                                'metadata': {'resourceVersion': str(self.rv)}}})
                s.cursor = max(s.cursor, self.rv) if not [e for e in self.events if e['rv'] > s.cursor and s.matches(e)] else s.cursor
                s.wake.set()

    def open_streams(self, kind: Kind | None = None) -> list[WatchStream]:
        return [s for s in self.streams if not s.closed and (kind is None or s.kind.key == kind.key)]

    # ------------------------------------------------------------------ request serving
    async def serve(self, session: Session, method: str, url: str, payload: Any, headers: dict) -> Response:
        parsed = urllib.parse.urlparse(url)
        query = dict(urllib.parse.parse_qsl(parsed.query))
        self.seq += 1
        req = Request(self.seq, session.actor, method, url, parsed.path, query, copy.deepcopy(payload), headers, self.now())
        req.order = self.next_order()
        self.requests.append(req)
        fault = self.fault_hook(req) if self.fault_hook is not None else None
        if self.on_request is not None:
            self.on_request(req)
        delay = self.latency + (fault.delay_before if fault else 0.0)
        if delay > 0:
            await asyncio.sleep(delay)
        if session.dead:
            raise aiohttp.ClientConnectionError('fake: process is dead')
        if session.unauthorized:
            req.status = 401
            return Response(401, status_payload(401, 'Unauthorized'))
        if fault is not None and not fault.apply_then_fail:
            if fault.exc == 'connection':
                req.note = 'fault:connection'
                raise aiohttp.ClientConnectionError('fake: connection refused')
            if fault.exc == 'timeout':
                req.note = 'fault:timeout'
                raise asyncio.TimeoutError()
            if fault.status is not None:
                req.status = fault.status
                req.note = f'fault:{fault.status}'
                return Response(fault.status, fault.payload if fault.payload is not None else status_payload(fault.status, 'Injected'),
                                headers=fault.headers)
        resp = self.route(req, session)
        req.status = resp.status
        if session.die_after_apply and req.method == 'PATCH':
            session.dead = True
            req.note = 'applied; process died before the response'
        if fault is not None and fault.delay_after > 0:
            await asyncio.sleep(fault.delay_after)
        if fault is not None and fault.apply_then_fail:
            req.note = 'applied-then-lost'
            raise aiohttp.ClientConnectionError('fake: response lost')
        if session.dead:
            raise aiohttp.ClientConnectionError('fake: process is dead')
        return resp

    def route(self, req: Request, session: Session) -> Response:
        parts = [p for p in req.path.split('/') if p]
        if parts == ['version']:
            return Response(200, {'major': '1', 'minor': '30'})
        if parts == ['api']:
            return Response(200, {'versions': ['v1']})
        if parts == ['apis']:
            groups: dict[str, set[str]] = {}
            for k in self.kinds.values():
                if k.group:
                    groups.setdefault(k.group, set()).add(k.version)
            return Response(200, {'groups': [{'name': g, 'preferredVersion': {'version': sorted(vs)[0]},
                                              'versions': [{'version': v} for v in sorted(vs)]} for g, vs in sorted(groups.items())]})
        if parts[0] == 'api' and len(parts) == 2:
            return self._discovery('', parts[1])
        if parts[0] == 'apis' and len(parts) == 3:
            return self._discovery(parts[1], parts[2])
        if parts[0] == 'api':
            group, version, rest = '', parts[1], parts[2:]
        elif parts[0] == 'apis':
            group, version, rest = parts[1], parts[2], parts[3:]
        else:
            return Response(404, status_payload(404, 'NotFound'))
        ns = None
        if len(rest) >= 3 and rest[0] == 'namespaces' and (group, version, rest[2]) in self.kinds:
            ns, rest = rest[1], rest[2:]
        if not rest or (group, version, rest[0]) not in self.kinds:
            return Response(404, status_payload(404, 'NotFound', f'no such resource: {req.path}'))
        kind = self.kinds[(group, version, rest[0])]
        name = rest[1] if len(rest) > 1 else None
        sub = rest[2] if len(rest) > 2 else None
        req.target = (kind.key, ns, name, sub)
        if req.method == 'GET' and name is None:
            if req.query.get('watch') == 'true':
                return self._watch(kind, ns, req, session)
            self.lists.append({'actor': session.actor, 'order': req.order, 'kind': kind.key, 't': self.now()})
            return self._list(kind, ns)
        if req.method == 'GET':
            o = self.get(kind, ns, name)
            return Response(200, o) if o is not None else Response(404, status_payload(404, 'NotFound'))
        if req.method == 'PATCH' and name is not None:
            return self._patch(kind, ns, name, sub, req, session)
        if req.method == 'POST':
            return Response(201, req.payload if isinstance(req.payload, dict) else {})
        return Response(405, status_payload(405, 'MethodNotAllowed'))

    def _discovery(self, group: str, version: str) -> Response:
        res = []
        for k in self.kinds.values():
            if k.group == group and k.version == version:
                res.append({'name': k.plural, 'singularName': k.kind.lower(), 'kind': k.kind, 'namespaced': k.namespaced,
                            'verbs': list(k.verbs), 'shortNames': [], 'categories': []})
                if k.status_subresource:
                    res.append({'name': f'{k.plural}/status', 'singularName': '', 'kind': k.kind, 'namespaced': k.namespaced,
                                'verbs': ['get', 'patch', 'update']})
        if not res:
            return Response(404, status_payload(404, 'NotFound'))
        return Response(200, {'kind': 'APIResourceList', 'groupVersion': f'{group}/{version}' if group else version, 'resources': res})

    def _list(self, kind: Kind, ns: str | None) -> Response:
        items = [copy.deepcopy(o) for (kk, ons, _), o in sorted(self.objects.items(), key=lambda kv: (kv[0][1] or '', kv[0][2]))
                 if kk == kind.key and (ns is None or ons == ns)]
        for it in items:
            it.pop('kind', None)
            it.pop('apiVersion', None)
        self.trace('list', kind=kind.plural, rv=self.rv, names=[i['metadata']['name'] for i in items])
        return Response(200, {'kind': kind.kind + 'List', 'apiVersion': kind.api_version,
                              'metadata': {'resourceVersion': str(self.rv)}, 'items': items})

    def _watch(self, kind: Kind, ns: str | None, req: Request, session: Session) -> Response:
        since = int(req.query.get('resourceVersion', '0') or 0)
        timeout = float(req.query['timeoutSeconds']) if 'timeoutSeconds' in req.query else None
        s = WatchStream(self, kind, ns, since, session.actor, timeout)
        self.streams.append(s)
        self.trace('watch', kind=kind.plural, since=since, actor=session.actor)
        return Response(200, None, stream=s)

    def _patch(self, kind: Kind, ns: str | None, name: str, sub: str | None, req: Request, session: Session) -> Response:
        key = (kind.key, ns if kind.namespaced else None, name)
        old = self.objects.get(key)
        if old is None:
            return Response(404, status_payload(404, 'NotFound', f'{kind.plural} "{name}" not found'))
        ctype = req.headers.get('Content-Type', '')
        try:
            if ctype == 'application/merge-patch+json':
                candidate = canon.merge7386(old, req.payload)
            elif ctype == 'application/json-patch+json':
                candidate = canon.apply6902(old, req.payload)
            else:
                return Response(415, status_payload(415, 'UnsupportedMediaType'))
        except canon.PatchTestFailed as e:
            return Response(422, status_payload(422, 'Invalid', f'the server rejected our request due to an error in our request: test failed {e}'))
        except (canon.PatchInvalid, KeyError, IndexError, ValueError, TypeError) as e:
            return Response(422, status_payload(422, 'Invalid', f'invalid patch: {e!r}'))
        if not isinstance(candidate, dict) or not isinstance(candidate.get('metadata'), dict):
            return Response(422, status_payload(422, 'Invalid', 'not an object'))
        new = copy.deepcopy(old)
        if kind.status_subresource:
            if sub == 'status':
                if 'status' in candidate:
                    new['status'] = candidate['status']
                else:
                    new.pop('status', None)
            else:
                keep = old.get('status')
                new = candidate
                if keep is not None:
                    new['status'] = copy.deepcopy(keep)
                else:
                    new.pop('status', None)
        else:
            new = candidate
        # immutable system fields
        for f in ('uid', 'name', 'namespace', 'resourceVersion', 'creationTimestamp', 'deletionTimestamp', 'generation'):
            if f in old['metadata']:
                new['metadata'][f] = old['metadata'][f]
            else:
                new['metadata'].pop(f, None)
        old_fins = old['metadata'].get('finalizers', [])
        new_fins = new['metadata'].get('finalizers', []) or []
        if old['metadata'].get('deletionTimestamp') and [f for f in new_fins if f not in old_fins]:
            return Response(422, status_payload(422, 'Invalid', 'Forbidden: no new finalizers can be added if the object is being deleted'))
        res = self._commit(kind, key, old, new, session.actor)
        req.before = copy.deepcopy(old)
        req.after = copy.deepcopy(self.objects.get(key))
        req.result_rv = res['metadata']['resourceVersion']
        req.uid = res['metadata']['uid']
        return Response(200, res)
