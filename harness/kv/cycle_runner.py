"""Shared driver of the history-level (closed loop) part of C02, C03, C06, C08, C14:
generate scenarios, run them against the real operator, apply the monitors, keep statistics."""
from __future__ import annotations

import json
import pathlib
import time
from typing import Any, Callable, Sequence

from kv import cycle_monitors as cm
from kv import cycle_sim as cs
from kv import framework as fw

RULE_HISTORY = ('history = (storage/lifecycle/subresource configuration x handler set with outcome scripts x list of environment '
                'actions: create/edit/delete/recreate, foreign finalizers, graceful stop, kill (incl. at the n-th PATCH, before/after the '
                'server applied it), downtime with edits, disconnect, 410, write conflicts); run against real kopf.operator() x FakeAPI under '
                'virtual time; non-trivial iff it contains >= 2 handler invocations with >= 1 non-final outcome or an operator restart; '
                'distinct by the canonical JSON of the scenario')


def corpus_scenarios(prop: str) -> list[dict]:
    out = []
    d = fw.ROOT / 'corpus' / prop
    if d.is_dir():
        for f in sorted(d.glob('*.json')):
            sc = json.loads(f.read_text())
            if 'scenario' in sc:
                sc = sc['scenario']
            if 'actions' in sc:
                out.append(sc)
    return out


def run_histories(ctx: fw.Ctx, n: int, monitors: Sequence[Callable[[Any, cs.Run], None]],
                  gen: Callable[[Any, int], dict] | None = None, horizon: float = 90.0,
                  extra: Sequence[dict] = ()) -> None:
    scenarios = corpus_scenarios(ctx.prop) + list(extra)
    for i in range(n):
        scenarios.append(gen(ctx.rng, i) if gen is not None else cs.gen_scenario(ctx.rng, daemons=(i % 3 == 0)))
    t0 = time.monotonic()
    for k, sc in enumerate(scenarios):
        # A tree that already fails need not be explored to the end (broken trees can make every scenario very slow):
        # with violations in hand, stop after 20 of them or after 4 minutes. Never cuts a run that has found nothing.
        if ctx.failures and (len(ctx.failures) >= 20 or time.monotonic() - t0 > 240):
            ctx.count('history', f'cut-short-after-violations')
            ctx.cov['histories_skipped_after_violations'] = len(scenarios) - k
            break
        run = cs.run_scenario(sc, horizon=horizon)
        try:
            w = run.world
            assert w is not None
            calls = [c for c in w.calls if c['kind'] in cm.CHANGING]
            nonfinal = [c for c in calls if c['outcome'] not in cm.FINAL]
            restarts = len(run.incs) - 1
            ctx.cov['evaluations'] += 1
            ctx.cov['traces_validated_against_impl'] += 1
            ctx.count('history', 'quiescent' if run.quiescent else ('error' if run.error else 'not-quiescent'))
            ctx.count('history_restarts', str(min(restarts, 4)))
            ctx.count('history_calls', '0' if not calls else '1-5' if len(calls) <= 5 else '6-20' if len(calls) <= 20 else '>20')
            for a in sc['actions']:
                ctx.count('env_action', a['a'])
            for c in calls:
                ctx.count('outcome', c['outcome'].split(':')[0])
            if (len(calls) >= 2 and nonfinal) or restarts:
                ctx.nontriv(sc)
            ctx.sample({'handlers': [f"{h['kind']}:{h['id']}:{','.join(h.get('script', []))}" for h in sc['handlers']],
                        'cfg': sc['cfg'], 'actions': [a['a'] for a in sc['actions']]}, limit=3)
            for m in monitors:
                m(ctx, run)
        finally:
            cs.close(run)


def replay_scenario(ctx: fw.Ctx, body: dict, monitors: Sequence[Callable[[Any, cs.Run], None]]) -> bool:
    case = body.get('case') or {}
    sc = case.get('scenario')
    if sc is None:
        print('replay file carries no scenario')
        return False
    run = cs.run_scenario(sc)
    try:
        for m in monitors:
            m(ctx, run)
    finally:
        cs.close(run)
    for f in ctx.failures:
        print('  still failing:', f['sig'], '-', f['what'])
    return bool(ctx.failures) or bool(ctx.known_hits)
