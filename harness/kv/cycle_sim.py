"""Histories of the closed loop (real kopf.operator() x FakeAPI) and the monitors of the
cycle-level properties C02, C03, C06, C08, C14 (+ closed-loop monitors for C04, C05, C07).

A *scenario* is a JSON-able dict: {'cfg': {...}, 'handlers': [...], 'actions': [...]}.  It is
executed deterministically by `run_scenario`; monitors read the recorded world afterwards.
"""
from __future__ import annotations

import copy
import json
import random
from typing import Any, Callable

from kv import fakeapi, sim

K = fakeapi.KOPFEXAMPLE
FINALIZER = 'kopf.zalando.org/KopfFinalizerMarker'


# --------------------------------------------------------------------------------------------
# Scenario generation
# --------------------------------------------------------------------------------------------

def gen_script(r: random.Random, max_fail: int = 2, allow_perm: bool = True) -> list[str]:
    s = []
    for _ in range(r.choice([0, 0, 1, 1, 2][:max_fail + 3])):
        s.append(r.choice(['temp:1', 'temp:2', 'err', 'temp:0.5']))
    s.append('perm' if allow_perm and r.random() < 0.12 else 'ok')
    return s


def gen_handlers(r: random.Random, daemons: bool = False, resume: bool = True) -> list[dict]:
    hs: list[dict] = []
    n_create = r.choice([0, 1, 1, 2])
    for i in range(n_create):
        hs.append({'kind': 'create', 'id': f'c{i}', 'script': gen_script(r), 'kwargs': {'backoff': r.choice([1, 2])}})
    for i in range(r.choice([0, 1, 1, 2])):
        hs.append({'kind': 'update', 'id': f'u{i}', 'script': gen_script(r), 'kwargs': {'backoff': 1}})
    if r.random() < 0.6:
        hs.append({'kind': 'delete', 'id': 'd0', 'script': gen_script(r, allow_perm=False), 'kwargs': {'backoff': 1,
                   **({'optional': True} if r.random() < 0.2 else {})}})
    if resume and r.random() < 0.6:
        hs.append({'kind': 'resume', 'id': 'r0', 'script': gen_script(r, max_fail=1), 'kwargs': {'backoff': 1,
                   **({'deleted': True} if r.random() < 0.2 else {})}})
    if r.random() < 0.3:
        hs.append({'kind': 'field', 'id': 'f0', 'script': ['ok'], 'kwargs': {'field': 'spec.a'}})
    if r.random() < 0.2:
        hs.append({'kind': 'event', 'id': 'e0', 'script': ['ok']})
    if daemons and r.random() < 0.7:
        temper = r.choice(['obeys', 'obeys', 'cancellable', 'ignores', 'exits'])
        # without cancellation_timeout a daemon is never cancelled nor abandoned (documented: 'forever polling', the object
        # stays blocked) — daemons that do not obey the stop flag therefore always get a timeout in these histories.
        hs.append({'kind': 'daemon', 'id': 'dm0', 'temper': temper,
                   'duration': 2, 'ignore_max': 1, 'kwargs': {'cancellation_backoff': r.choice([None, 1]),
                   'cancellation_timeout': 2 if temper in ('ignores', 'cancellable') else r.choice([None, 2])}})
    if not hs:
        hs.append({'kind': 'update', 'id': 'u0', 'script': ['ok'], 'kwargs': {}})
    return hs


def gen_cfg(r: random.Random) -> dict:
    return {
        'storage': r.choice(['default', 'default', 'annotations', 'status', 'smart-p']),
        'status_subresource': r.random() < 0.3,
        'lifecycle': r.choice([None, None, 'one_by_one', 'all_at_once', 'asap']),
        'consistency_timeout': r.choice([5, 5, 2]),
        'latency': r.choice([0, 0, 0.125]),
    }


ENV_ACTIONS = ['create', 'edit_spec', 'edit_label', 'edit_status', 'edit_ann', 'foreign_fin_add', 'foreign_fin_del',
               'delete', 'run', 'stop_restart', 'kill_restart', 'kill_mid_patch', 'downtime_edits', 'disconnect', 'gone410',
               'conflict422', 'recreate', 'race_edit']


def gen_actions(r: random.Random, n: int, weights: dict[str, float] | None = None) -> list[dict]:
    w = {a: 1.0 for a in ENV_ACTIONS}
    w.update({'run': 3.0, 'edit_spec': 2.5, 'create': 1.5, 'kill_mid_patch': 0.6, 'recreate': 0.3, 'gone410': 0.5, 'race_edit': 1.2})
    if weights:
        w.update(weights)
    names = [a for a in ENV_ACTIONS if w[a] > 0]
    acts: list[dict] = [{'a': 'create', 'obj': 'obj1', 'spec': {'a': 1}}]
    for _ in range(n):
        a = r.choices(names, weights=[w[x] for x in names])[0]
        obj = r.choice(['obj1', 'obj1', 'obj2'])
        if a == 'create':
            acts.append({'a': a, 'obj': obj, 'spec': {'a': r.randrange(5), 'b': {'c': r.choice(['x', 'y'])}}})
        elif a == 'edit_spec':
            acts.append({'a': a, 'obj': obj, 'patch': r.choice([{'a': r.randrange(100, 200)}, {'b': {'c': r.choice(['p', 'q', None])}}, {'l': [r.randrange(3)]}])})
        elif a == 'edit_label':
            acts.append({'a': a, 'obj': obj, 'labels': {r.choice(['app', 'tier']): r.choice(['v', 'w', None])}})
        elif a == 'edit_status':
            acts.append({'a': a, 'obj': obj, 'status': {'external': r.randrange(100)}})
        elif a == 'edit_ann':
            acts.append({'a': a, 'obj': obj, 'annotations': {r.choice(['note', 'example.com/x']): r.choice(['1', 'two', None])}})
        elif a in ('foreign_fin_add', 'foreign_fin_del'):
            acts.append({'a': a, 'obj': obj, 'fin': r.choice(['other/fin', 'x.io/keep'])})
        elif a == 'run':
            acts.append({'a': a, 'dt': r.choice([0.125, 0.5, 1, 2, 3, 8])})
        elif a == 'downtime_edits':
            acts.append({'a': a, 'kill': r.random() < 0.5, 'edits': [{'a': r.randrange(200, 300)} for _ in range(r.choice([1, 2, 3]))], 'obj': obj})
        elif a == 'kill_mid_patch':
            acts.append({'a': a, 'nth': r.choice([1, 1, 2, 3]), 'applied': r.random() < 0.5, 'obj': obj, 'patch': {'a': r.randrange(300, 400)}})
        elif a == 'conflict422':
            acts.append({'a': a, 'count': r.choice([1, 1, 2])})
        elif a == 'race_edit':
            acts.append({'a': a, 'obj': obj, 'patch': {'a': r.randrange(400, 500)}, 'hops': r.choice([0, 0, 0, 1, 2, 3, 5, 8, 13]), 'nth_timer': r.choice([0, 0, 0, 1, 2])})
        else:
            acts.append({'a': a, 'obj': obj})
    return acts


def gen_scenario(r: random.Random, n_actions: int = 14, daemons: bool = False, weights: dict[str, float] | None = None) -> dict:
    return {'cfg': gen_cfg(r), 'handlers': gen_handlers(r, daemons=daemons), 'actions': gen_actions(r, n_actions, weights)}


# --------------------------------------------------------------------------------------------
# Execution
# --------------------------------------------------------------------------------------------

def configure_from(cfg: dict) -> Callable[[Any], None]:
    def configure(settings: Any) -> None:
        import kopf
        st = cfg.get('storage', 'default')
        if st == 'annotations':
            settings.persistence.progress_storage = kopf.AnnotationsProgressStorage(prefix='my-op.example.com')
            settings.persistence.diffbase_storage = kopf.AnnotationsDiffBaseStorage(prefix='my-op.example.com')
        elif st == 'status':
            settings.persistence.progress_storage = kopf.StatusProgressStorage(field='status.myop.progress', touch_field='status.myop.dummy')
            settings.persistence.diffbase_storage = kopf.StatusDiffBaseStorage(field='status.myop.last-handled-configuration')
        elif st == 'smart-p':
            settings.persistence.progress_storage = kopf.SmartProgressStorage(prefix='p.example.com', v1=False)
            settings.persistence.diffbase_storage = kopf.AnnotationsDiffBaseStorage(prefix='p.example.com', v1=False)
        settings.persistence.consistency_timeout = cfg.get('consistency_timeout', 5)
        if 'worker_limit' in cfg:
            settings.queueing.worker_limit = cfg['worker_limit']
        if 'error_delays' in cfg:
            settings.queueing.error_delays = cfg['error_delays']
        settings.queueing.idle_timeout = cfg.get('idle_timeout', 5)
        settings.queueing.exit_timeout = 2
        settings.background.cancellation_polling = 2
        settings.watching.reconnect_backoff = 0.125      # dyadic, so that virtual instants are exact in ticks
    return configure


def lifecycle_of(cfg: dict) -> Any:
    import kopf
    name = cfg.get('lifecycle')
    return getattr(kopf.lifecycles, name) if name else None


class Run:
    """A finished scenario: the world plus bookkeeping the monitors need."""
    def __init__(self, scenario: dict) -> None:
        self.scenario = scenario
        self.world: sim.World | None = None
        self.incs: list[sim.Incarnation] = []
        self.marks: list[dict] = []          # environment actions with their virtual time
        self.quiescent = False
        self.snap: dict[str, Any] = {}       # final server objects
        self.requests_after_quiescence = 0
        self.exclusions: set[str] = set()    # which of the "absent ..." clauses of C02 occurred
        self.error: str | None = None


def _kind(cfg: dict) -> fakeapi.Kind:
    return fakeapi.Kind('kopf.dev', 'v1', 'KopfExample', 'kopfexamples', status_subresource=bool(cfg.get('status_subresource')))


def run_scenario(scenario: dict, horizon: float = 90.0) -> Run:
    run = Run(scenario)
    cfg = scenario['cfg']
    kind = _kind(cfg)
    w = sim.World(kinds=[kind], latency=cfg.get('latency', 0))
    run.world = w
    api = w.api
    gen = {'n': 0}

    def new_op() -> sim.Incarnation:
        gen['n'] += 1
        inc = w.operator(f'op{gen["n"]}', scenario['handlers'], kind=kind, configure=configure_from(cfg), lifecycle=lifecycle_of(cfg))
        run.incs.append(inc)
        return inc.start()

    def mark(a: dict, **kw: Any) -> None:
        run.marks.append({'t': w.now, **a, **kw})

    conflicts = {'n': 0}

    def conflict_hook(req: fakeapi.Request) -> None:
        # A realistic optimistic-concurrency conflict: a foreign (non-essential) write slips in right
        # before the framework's JSON-patch, so its resourceVersion test fails AND a new event follows.
        if conflicts['n'] > 0 and req.method == 'PATCH' and req.headers.get('Content-Type') == 'application/json-patch+json' \
                and req.actor.startswith('op:'):
            conflicts['n'] -= 1
            conflicts['seq'] = conflicts.get('seq', 0) + 1
            parts = [x for x in req.path.split('/') if x]
            name = parts[-2] if parts[-1] == 'status' else parts[-1]
            api.merge_edit(kind, 'ns1', name, {'status': {'bump': conflicts['seq']}}, actor='ext:conflict')
    api.on_request = conflict_hook

    try:
        op = new_op()
        w.run_for(0.5)
        for a in scenario['actions']:
            kind_a = a['a']
            obj = a.get('obj', 'obj1')
            mark(a)
            if kind_a == 'create':
                if api.get(kind, 'ns1', obj) is None:
                    api.create(kind, 'ns1', obj, {'spec': copy.deepcopy(a['spec'])})
            elif kind_a == 'edit_spec':
                api.merge_edit(kind, 'ns1', obj, {'spec': a['patch']})
            elif kind_a == 'edit_label':
                api.merge_edit(kind, 'ns1', obj, {'metadata': {'labels': a['labels']}})
            elif kind_a == 'edit_status':
                api.merge_edit(kind, 'ns1', obj, {'status': a['status']})
            elif kind_a == 'edit_ann':
                api.merge_edit(kind, 'ns1', obj, {'metadata': {'annotations': a['annotations']}})
            elif kind_a == 'foreign_fin_add':
                def add(b: dict, f: str = a['fin']) -> None:
                    fins = b['metadata'].setdefault('finalizers', [])
                    if f not in fins and not b['metadata'].get('deletionTimestamp'):
                        fins.insert(0, f) if len(fins) % 2 else fins.append(f)
                api.edit(kind, 'ns1', obj, add)
            elif kind_a == 'foreign_fin_del':
                def rm(b: dict, f: str = a['fin']) -> None:
                    fins = b['metadata'].get('finalizers', [])
                    if f in fins:
                        fins.remove(f)
                api.edit(kind, 'ns1', obj, rm)
            elif kind_a == 'delete':
                api.delete(kind, 'ns1', obj)
            elif kind_a == 'recreate':
                api.delete(kind, 'ns1', obj, force=True)
                if api.get(kind, 'ns1', obj) is None:
                    api.create(kind, 'ns1', obj, {'spec': {'a': 999, 'recreated': True}})
            elif kind_a == 'run':
                w.run_for(a['dt'])
            elif kind_a == 'stop_restart':
                op.stop()
                if not op.wait_exit(60):
                    run.error = 'graceful stop did not finish within 60 virtual seconds'
                    op.kill()
                w.run_for(0.25)
                op = new_op()
            elif kind_a == 'kill_restart':
                op.kill()
                run.exclusions.add('kill')
                w.run_for(0.25)
                op = new_op()
            elif kind_a == 'downtime_edits':
                if a['kill']:
                    op.kill()
                    run.exclusions.add('kill')
                else:
                    op.stop()
                    if not op.wait_exit(60):
                        op.kill()
                for e in a['edits']:
                    api.merge_edit(kind, 'ns1', obj, {'spec': e})
                    w.run_for(0.125)
                op = new_op()
            elif kind_a == 'kill_mid_patch':
                # trigger a change, then kill the operator at its nth PATCH: before or after the server applied it
                target = {'n': a['nth'], 'inc': op}
                prev_hook = api.on_request

                def on_req(req: fakeapi.Request, target: dict = target, applied: bool = a['applied']) -> None:
                    if req.method == 'PATCH' and req.actor == target['inc'].session.actor and target['n'] > 0:
                        target['n'] -= 1
                        if target['n'] == 0:
                            if applied:
                                target['inc'].session.die_after_apply = True   # server applies, response never arrives
                            else:
                                target['inc'].session.dead = True              # the request never reaches the server
                def both(req: fakeapi.Request, f1: Any = on_req, f2: Any = prev_hook) -> None:
                    f1(req)
                    if f2 is not None:
                        f2(req)
                api.on_request = both
                api.merge_edit(kind, 'ns1', obj, {'spec': a['patch']})
                w.loop.run_until_fine(lambda: op.session.dead, w.now + 3)
                api.on_request = prev_hook
                target['n'] = -1                                   # disarm: no later PATCH may trigger the kill
                if not op.session.dead and op.session.die_after_apply:
                    # the n-th PATCH was issued right at the end of the wait: the server is applying it and the session dies
                    # when the response would arrive - let that play out (a dead session without a restart would be a zombie
                    # operator, an artefact of the harness, not a behaviour of kopf)
                    w.loop.run_until_fine(lambda: op.session.dead, w.now + 2)
                    if not op.session.dead:
                        op.session.die_after_apply = False
                if op.session.dead:
                    op.kill()
                    run.exclusions.add('kill')
                    w.run_for(0.25)
                    op = new_op()
            elif kind_a == 'foreign_burst':
                # an essential edit, and `count` foreign NON-essential writes that land right before the operator's n-th own
                # PATCH of this object is applied: their watch events arrive between the operator's write and its echo
                # (several stale views in a row while the worker waits for the version of its own patch)
                target = {'n': a.get('nth', 1), 'inc': op, 'done': False}
                prev_hook = api.on_request

                def on_burst(req: fakeapi.Request, target: dict = target, count: int = a.get('count', 2), name: str = obj) -> None:
                    if (req.method == 'PATCH' and req.actor == target['inc'].session.actor and not target['done']
                            and name in req.path.split('/')):
                        target['n'] -= 1
                        if target['n'] <= 0:
                            target['done'] = True
                            for k in range(count):
                                if api.get(kind, 'ns1', name) is not None:
                                    api.merge_edit(kind, 'ns1', name, {'status': {'external': 1000 + k}})

                def both_burst(req: fakeapi.Request, f1: Any = on_burst, f2: Any = prev_hook) -> None:
                    f1(req)
                    if f2 is not None:
                        f2(req)
                api.on_request = both_burst
                if api.get(kind, 'ns1', obj) is not None:
                    api.merge_edit(kind, 'ns1', obj, {'spec': a['patch']})
                w.loop.run_until_fine(lambda: target['done'], w.now + 3)
                api.on_request = prev_hook
                target['done'] = True
            elif kind_a == 'race_edit':
                # an external edit whose watch event is in flight while a timer of the operator (idle worker timeout,
                # retry sleep, consistency deadline, ...) fires: edit now, let the delivery advance `hops` loop
                # iterations, then jump to the timer's deadline
                deadlines = sorted({h._when for h in w.loop._scheduled if not h._cancelled})   # type: ignore[attr-defined]
                deadlines = [t for t in deadlines if w.now < t <= w.now + 30]
                if len(deadlines) > a.get('nth_timer', 0):
                    t = deadlines[a.get('nth_timer', 0)]
                    api.merge_edit(kind, 'ns1', obj, {'spec': a['patch']})
                    for _ in range(a.get('hops', 0)):
                        if w.loop.has_ready():
                            w.loop.step()
                    w.loop.advance_to(t)
                    w.loop.settle()
            elif kind_a == 'disconnect':
                for s in api.open_streams(kind):
                    s.terminate('connection')
            elif kind_a == 'gone410':
                api.compact(kind)
                for s in api.open_streams(kind):
                    s.terminate('eof')
            elif kind_a == 'conflict422':
                conflicts['n'] += a['count']
            w.run_for(0.125)
        mark({'a': 'end-of-actions'})
        conflicts['n'] = 0
        run.quiescent = w.quiesce(horizon, grace=12.0)
        n_req = len([q for q in api.requests if q.method == 'PATCH'])
        run.t_quiescent = w.now
        w.run_for(30)
        run.requests_after_quiescence = len([q for q in api.requests if q.method == 'PATCH']) - n_req
        for name in ('obj1', 'obj2'):
            run.snap[name] = api.get(kind, 'ns1', name)
        run.final_op = op
    except Exception as e:   # a stall or a crash of the harness/operator is itself a result
        run.error = f'{type(e).__name__}: {e}'
    return run


def close(run: Run) -> None:
    if run.world is not None:
        run.world.close()
        run.world = None


# --------------------------------------------------------------------------------------------
# Independent reading of "essence" (harness's own; not kopf's, not the model's)
# --------------------------------------------------------------------------------------------

def own_prefixes(cfg: dict) -> list[str]:
    return {'default': ['kopf.zalando.org'], 'annotations': ['my-op.example.com'], 'status': [], 'smart-p': ['p.example.com']}[cfg.get('storage', 'default')]


def essence_of(body: dict, cfg: dict) -> dict:
    e = {k: copy.deepcopy(v) for k, v in body.items() if k not in ('apiVersion', 'kind', 'metadata', 'status')}
    md = body.get('metadata', {})
    m: dict[str, Any] = {}
    if md.get('labels'):
        m['labels'] = dict(md['labels'])
    anns = {k: v for k, v in md.get('annotations', {}).items()
            if not any(k.startswith(p + '/') for p in own_prefixes(cfg) + ['kopf.zalando.org'])
            and k != 'kubectl.kubernetes.io/last-applied-configuration'}
    if anns:
        m['annotations'] = anns
    if m:
        e['metadata'] = m
    return e


def last_handled(body: dict, cfg: dict) -> dict | None:
    st = cfg.get('storage', 'default')
    if st == 'status':
        raw = body.get('status', {}).get('myop', {}).get('last-handled-configuration')
    else:
        pfx = own_prefixes(cfg)[0]
        raw = body.get('metadata', {}).get('annotations', {}).get(f'{pfx}/last-handled-configuration')
    return json.loads(raw) if raw else None


def progress_records(body: dict, cfg: dict) -> dict[str, dict]:
    out: dict[str, dict] = {}
    st = cfg.get('storage', 'default')
    if st == 'status':
        for k, v in (body.get('status', {}).get('myop', {}).get('progress') or {}).items():
            out[k] = v
        return out
    pfx = own_prefixes(cfg)[0]
    for k, v in body.get('metadata', {}).get('annotations', {}).items():
        if k.startswith(pfx + '/') and k.split('/', 1)[1] not in ('last-handled-configuration', 'kopf-managed', 'touch-dummy'):
            try:
                out[k.split('/', 1)[1]] = json.loads(v)
            except ValueError:
                pass
    for k, v in (body.get('status', {}).get('kopf', {}).get('progress') or {}).items():
        out.setdefault(k, v)
    return out
