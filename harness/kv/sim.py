"""Closed-loop simulation: real `kopf.operator()` incarnations against `fakeapi.FakeAPI` under
the stepped virtual-time loop (DESIGN.md §5 `sim`).  Handlers are generated from a declarative,
JSON-able spec; every invocation is logged with what the handler saw.

Nothing of /repo is modified.  Harness-side patches of kopf module attributes:
  * `datetime` in four modules (kv.clock) — virtual wall clock;
  * `aiotasks.all_tasks` as seen by `kopf._core.reactor.running` — restricted to the tasks of the
    calling incarnation, so that several operators can share one loop (kopf assumes it owns it).
"""
from __future__ import annotations

import asyncio
import contextvars
import copy
import logging
import warnings
from typing import Any, Callable

from kv import clock, fakeapi, vloop

INCARNATION: contextvars.ContextVar[str | None] = contextvars.ContextVar('kv_incarnation', default=None)

_patched = {'done': False}


def _install_patches() -> None:
    if _patched['done']:
        return
    clock.install()
    from kopf._cogs.aiokits import aiotasks
    from kopf._core.reactor import running
    orig_all_tasks = aiotasks.all_tasks

    async def all_tasks_of_incarnation(ignored: Any = frozenset()) -> Any:
        me = INCARNATION.get()
        tasks = await orig_all_tasks(ignored=ignored)
        if me is None:
            return tasks
        return {t for t in tasks if t.get_context().get(INCARNATION) == me}

    if not hasattr(running, 'aiotasks') or not hasattr(running.aiotasks, 'all_tasks'):
        raise RuntimeError('observation point missing: running.aiotasks.all_tasks')

    class _AioTasksProxy:
        def __getattr__(self, name: str) -> Any:
            return getattr(aiotasks, name)
    proxy = _AioTasksProxy()
    proxy.all_tasks = all_tasks_of_incarnation  # type: ignore[attr-defined]
    running.aiotasks = proxy  # type: ignore[attr-defined]
    logging.getLogger('kopf').setLevel(logging.CRITICAL + 1)
    logging.getLogger('asyncio').setLevel(logging.CRITICAL + 1)
    _patched['done'] = True


class Scripted(Exception):
    """An arbitrary (non-kopf) error raised by a scripted handler."""


class World:
    current: 'World | None' = None

    def __init__(self, kinds: list[fakeapi.Kind] | None = None, latency: float = 0.0) -> None:
        _install_patches()
        World.current = self
        self.loop = vloop.new_loop()
        self.ctx = vloop.running(self.loop)
        self.ctx.__enter__()
        self.api = fakeapi.FakeAPI(kinds=kinds, latency=latency)
        self.calls: list[dict] = []                       # handler invocation log
        self.counters: dict[tuple, int] = {}              # (uid, handler id) -> invocations so far
        self.incarnations: list['Incarnation'] = []
        self.offset = 0.0

    @property
    def now(self) -> float:
        return self.loop.time()

    def run_for(self, dt: float) -> None:
        self.loop.run_for(dt)

    def run_until(self, pred: Callable[[], bool], horizon: float) -> bool:
        return self.loop.run_until(pred, self.loop.time() + horizon)

    def settle(self) -> None:
        self.loop.settle()

    def quiesce(self, horizon: float, grace: float = 12.0) -> bool:
        """Run until no timer fires and no request arrives for `grace` virtual seconds (ignoring the
        periodic infrastructure), or until the horizon.  Returns True iff quiescent."""
        end = self.now + horizon
        while self.now < end:
            n_req, n_calls = len(self.api.requests), len(self.calls)
            self.loop.run_for(grace)
            if len(self.api.requests) == n_req and len(self.calls) == n_calls and not self._busy():
                return True
        return False

    def _busy(self) -> bool:
        return any(c.get('ended') is None for c in self.calls if not c.get('aborted') and c.get('kind') != 'daemon')

    def close(self) -> None:
        try:
            for inc in self.incarnations:
                if inc.state == 'running':
                    inc.kill()
            self.loop.settle()
        except Exception:
            pass
        self.ctx.__exit__(None, None, None)
        vloop.close_loop(self.loop)

    def operator(self, name: str, handlers: list[dict], **kw: Any) -> 'Incarnation':
        inc = Incarnation(self, name, handlers, **kw)
        self.incarnations.append(inc)
        return inc


def _outcome(world: World, spec: dict, uid: str) -> str:
    key = (uid, spec['id'])
    n = world.counters.get(key, 0)
    world.counters[key] = n + 1
    script = spec.get('script') or ['ok']
    return script[min(n, len(script) - 1)]


def make_handler(world: World, inc: 'Incarnation', spec: dict) -> Callable[..., Any]:
    import kopf

    async def handler(**kwargs: Any) -> Any:
        body = kwargs.get('body')
        uid = (body.get('metadata', {}).get('uid') if body is not None else None) or '-'
        entry = {
            't': world.now, 'inc': inc.name, 'handler': spec['id'], 'kind': spec['kind'], 'uid': uid,
            'name': body.get('metadata', {}).get('name') if body is not None else None,
            'rv': body.get('metadata', {}).get('resourceVersion') if body is not None else None,
            'retry': kwargs.get('retry'), 'reason': str(getattr(kwargs.get('reason'), 'value', kwargs.get('reason'))) if 'reason' in kwargs else None,
            'started': str(kwargs.get('started')) if 'started' in kwargs else None,
            'deleting': bool(body.get('metadata', {}).get('deletionTimestamp')) if body is not None else None,
            'finalizers': list(body.get('metadata', {}).get('finalizers', [])) if body is not None else None,
            'old': copy.deepcopy(kwargs.get('old')) if 'old' in kwargs else None,
            'new': copy.deepcopy(kwargs.get('new')) if 'new' in kwargs else None,
            'diff': [list(d) for d in kwargs.get('diff', ())] if 'diff' in kwargs else None,
            'type': (kwargs.get('event') or {}).get('type') if spec['kind'] == 'event' else None,
            'view_ann': dict(body.get('metadata', {}).get('annotations', {})) if body is not None else None,
            'view_status': copy.deepcopy(dict(body.get('status', {}))) if body is not None else None,
            'ended': None, 'outcome': None,
        }
        entry['order'] = world.api.next_order()
        world.calls.append(entry)
        what = _outcome(world, spec, uid)
        entry['outcome'] = what
        try:
            d = spec.get('duration', 0)
            if d:
                await asyncio.sleep(d)
            if spec.get('patch') is not None and kwargs.get('patch') is not None:
                for k, v in spec['patch'].items():
                    kwargs['patch'].setdefault(k, {}).update(copy.deepcopy(v)) if isinstance(v, dict) else kwargs['patch'].__setitem__(k, v)
            if what == 'ok':
                return copy.deepcopy(spec.get('result'))
            if what.startswith('temp'):
                delay = float(what.split(':')[1]) if ':' in what else 1.0
                raise kopf.TemporaryError('scripted temporary', delay=delay)
            if what == 'perm':
                raise kopf.PermanentError('scripted permanent')
            if what == 'err':
                raise Scripted('scripted arbitrary')
            raise AssertionError(f'unknown outcome {what}')
        except asyncio.CancelledError:
            entry['aborted'] = True
            raise
        finally:
            entry['ended'] = world.now

    handler.__name__ = spec['id']
    handler.__qualname__ = spec['id']
    return handler


def make_daemon(world: World, inc: 'Incarnation', spec: dict) -> Callable[..., Any]:
    async def daemon(**kwargs: Any) -> Any:
        body = kwargs['body']
        uid = body.get('metadata', {}).get('uid') or '-'
        entry = {'t': world.now, 'inc': inc.name, 'handler': spec['id'], 'kind': 'daemon', 'uid': uid,
                 'name': body.get('metadata', {}).get('name'), 'ended': None, 'outcome': None, 'retry': kwargs.get('retry'),
                 'stop_seen': None, 'cancelled_at': None, 'flag_at': None, 'order': world.api.next_order()}
        world.calls.append(entry)
        temper = spec.get('temper', 'obeys')
        stopped = kwargs['stopped']

        async def watch_flag() -> None:      # when was this instance asked to stop (whatever its temper)
            await stopped.wait()
            entry['flag_at'] = world.now
            entry['flag_reason'] = str(getattr(stopped, 'reason', None))
        flag_task = asyncio.create_task(watch_flag())
        try:
            if temper == 'exits':
                await asyncio.sleep(spec.get('duration', 1))
                entry['outcome'] = 'exited'
                return
            while True:
                try:
                    if temper == 'obeys':
                        await stopped.wait()
                        entry['stop_seen'] = world.now
                        entry['outcome'] = 'obeyed'
                        return
                    await asyncio.sleep(3600)
                except asyncio.CancelledError:
                    entry['cancelled_at'] = world.now
                    entry.setdefault('first_cancelled_at', world.now)
                    if temper == 'ignores' and not inc.dying and entry.setdefault('ignored', 0) < spec.get('ignore_max', 1000):
                        entry['ignored'] += 1
                        continue
                    entry['outcome'] = 'cancelled'
                    raise
        finally:
            entry['ended'] = world.now
            entry['end_order'] = world.api.next_order()
            flag_task.cancel()

    daemon.__name__ = spec['id']
    daemon.__qualname__ = spec['id']
    return daemon


DECORATORS = {'create': 'create', 'update': 'update', 'delete': 'delete', 'resume': 'resume', 'field': 'field',
              'event': 'event', 'timer': 'timer', 'daemon': 'daemon', 'index': 'index'}


def build_registry(world: World, inc: 'Incarnation', handlers: list[dict], kind: fakeapi.Kind) -> Any:
    import kopf
    registry = kopf.OperatorRegistry()
    for spec in handlers:
        k = spec['kind']
        kw = dict(spec.get('kwargs', {}))
        if k in ('startup', 'cleanup'):
            fn = make_handler(world, inc, spec)
            getattr(kopf.on, k)(id=spec['id'], registry=registry, **kw)(fn)
            continue
        fn = make_daemon(world, inc, spec) if k == 'daemon' else make_handler(world, inc, spec)
        sel_kind = spec.get('resource') or kind
        deco = getattr(kopf.on, DECORATORS[k]) if k not in ('timer', 'daemon', 'index') else getattr(kopf, k)
        args = (sel_kind.group, sel_kind.version, sel_kind.plural)
        deco(*args, id=spec['id'], registry=registry, **kw)(fn)
    return registry


class Incarnation:
    """One operator process: fresh memories, indexers, vault, session."""

    def __init__(self, world: World, name: str, handlers: list[dict], kind: fakeapi.Kind = fakeapi.KOPFEXAMPLE,
                 configure: Callable[[Any], None] | None = None, peering: dict | None = None,
                 namespaces: list[str] | None = None, lifecycle: Any = None) -> None:
        self.world, self.name, self.handlers, self.kind = world, name, handlers, kind
        self.configure, self.peering, self.namespaces, self.lifecycle = configure, peering, namespaces, lifecycle
        self.state = 'new'
        self.dying = False           # set by kill(): scripted daemons stop swallowing cancellations
        self.task: asyncio.Task | None = None
        self.exception: BaseException | None = None
        self.returned_at: float | None = None
        self.session = world.api.session(f'op:{name}')
        self.stop_flag: asyncio.Event | None = None
        self.ready_flag: asyncio.Event | None = None
        self.memories: Any = None
        self.indexers: Any = None
        self.settings: Any = None

    def start(self) -> 'Incarnation':
        import kopf
        from kopf._cogs.structs import credentials
        from kopf._core.engines import indexing
        from kopf._core.reactor import inventory
        w = self.world
        settings = kopf.OperatorSettings()
        settings.posting.enabled = False
        settings.scanning.disabled = True
        settings.networking.error_backoffs = [1, 2]
        settings.watching.server_timeout = None
        settings.watching.client_timeout = None
        settings.execution.max_workers = 1
        if self.configure is not None:
            self.configure(settings)
        self.settings = settings
        self.stop_flag = asyncio.Event()
        self.ready_flag = asyncio.Event()
        self.memories = inventory.ResourceMemories()
        self.indexers = indexing.OperatorIndexers()
        registry = build_registry(w, self, self.handlers, self.kind)
        vault = credentials.Vault({credentials.VaultKey('k'): credentials.AiohttpSession(server='http://fake', aiohttp_session=self.session)})
        kw: dict[str, Any] = dict(registry=registry, settings=settings, memories=self.memories, indexers=self.indexers,
                                  stop_flag=self.stop_flag, ready_flag=self.ready_flag, vault=vault)
        if self.lifecycle is not None:
            kw['lifecycle'] = self.lifecycle
        if self.namespaces:
            kw['namespaces'] = self.namespaces
        else:
            kw['clusterwide'] = True
        if self.peering:
            kw.update(self.peering)
        else:
            kw['standalone'] = True

        async def main() -> None:
            with warnings.catch_warnings():
                warnings.simplefilter('ignore')
                await kopf.operator(**kw)

        ctx = contextvars.copy_context()
        ctx.run(INCARNATION.set, self.name)
        self.task = w.loop.create_task(main(), name=f'operator {self.name}', context=ctx)
        self.task.add_done_callback(self._done)
        self.state = 'running'
        self.started_at = w.now
        self.start_order = w.api.next_order()
        return self

    def _done(self, task: asyncio.Task) -> None:
        self.returned_at = self.world.now
        if getattr(self, 'end_order', None) is None:
            self.end_order = self.world.api.next_order()
            self.end_time = self.world.now
        if self.state == 'running':
            self.state = 'exited'
        if task.cancelled():
            self.exception = asyncio.CancelledError()
        else:
            self.exception = task.exception()

    def tasks(self) -> list[asyncio.Task]:
        return [t for t in asyncio.all_tasks(self.world.loop) if t.get_context().get(INCARNATION) == self.name]

    def stop(self) -> None:
        """Graceful stop request (the stop flag)."""
        assert self.stop_flag is not None
        self.stop_flag.set()

    def cancel(self) -> None:
        assert self.task is not None
        self.task.cancel()

    def kill(self) -> None:
        """SIGKILL: nothing more reaches the server; every task of the process disappears."""
        self.state = 'killed'
        self.dying = True
        if getattr(self, 'end_order', None) is None:
            self.end_order = self.world.api.next_order()
            self.end_time = self.world.now
        self.session.dead = True
        for s in self.world.api.streams:
            if s.actor == self.session.actor and not s.closed:
                s.close_by_client()
        for _ in range(20):
            pending = [t for t in self.tasks() if not t.done()]
            if not pending:
                break
            for t in pending:
                t.cancel()
            self.world.loop.settle()
        for c in self.world.calls:
            if c['inc'] == self.name and c.get('ended') is None:
                c['aborted'] = True
                c['ended'] = self.world.now

    def wait_exit(self, horizon: float = 120.0) -> bool:
        return self.world.run_until(lambda: self.task is not None and self.task.done(), horizon)
