"""C09 — a small closed world around the REAL kopf daemon machinery (DESIGN.md §8 C09, Appendix B).

What is real: `processing.process_resource_event` (hence `memories.recall/forget`, `_detect_causes`,
`process_resource_causes`, `process_spawning_cause`), `daemons.spawn_daemons / match_daemons /
stop_daemons / pause_daemons / daemon_killer / stop_daemon / _runner / _daemon / _timer`,
`stoppers`, `aioenums.FlagSetter`, `inventory.ResourceMemories`, the registry and `@kopf.daemon` /
`@kopf.timer` decorators, filters.  What is fake: the cluster (one dict per object, Kubernetes
finalizer/deletionTimestamp life-cycle), `application.apply` (applies the accumulated patch to the fake
object and re-delivers a touch event after the smallest returned delay, like sleep+touch does), and the
user's daemon/timer functions (scripted tempers).

Observation points (wrappers installed on module attributes inside this process only; /repo untouched):
  daemons._runner                -> spawn / end of every instance (uid, handler id, serial)
  daemons._wait_for_instant_exit -> task.done() before/after each "instant exit" wait
  daemons.stop_daemons           -> call boundaries, returned delays
  aioenums.FlagSetter.set        -> every reason set on every stopper, with the loop time
  aiotime.sleep                  -> busy-loop watchdog (a coroutine that keeps calling sleep() without the loop
                                    making a step is a stall: `Stall` is raised INTO that coroutine and recorded)
  task factory of the VLoop      -> Task.cancel() on runner tasks
All times are virtual; the harness uses multiples of 1/8 s only, reported as integer milliseconds.
"""
from __future__ import annotations

import asyncio
import contextlib
import functools
import linecache
import logging
import signal
import sys
import warnings
from typing import Any, Callable

from kv import vloop

REASONS = ['DONE', 'FILTERS_MISMATCH', 'RESOURCE_DELETED', 'OPERATOR_PAUSING', 'OPERATOR_EXITING',
           'DAEMON_SIGNALLED', 'DAEMON_CANCELLED', 'DAEMON_ABANDONED']
TEMPERS = ['obeys', 'cancel', 'ignores', 'own']      # daemons
SPIN_LIMIT = 3000


class ObservationPointMissing(Exception):
    pass


class Hang(SystemExit):
    """Raised by the wall-clock backstop (SIGALRM) — passes through asyncio.Task.__step."""


def ms(t: float) -> int:
    r = round(t * 1000)
    if abs(r - t * 1000) > 1e-6:
        raise ValueError(f'non-millisecond time {t!r}')
    return int(r)


def reason_names(reason: Any) -> list[str] | None:
    if reason is None:
        return None
    return [n for n in REASONS if getattr(type(reason), n) in reason]


class LTask(asyncio.Task):  # type: ignore[type-arg]
    """Task which reports cancel() calls on runner tasks to the world."""
    kv_world: 'World | None' = None
    kv_ser: int | None = None

    def cancel(self, msg: Any = None) -> bool:
        w = self.kv_world
        if w is not None and self.kv_ser is not None and not self.done() and not w.closing:
            fr = sys._getframe(1)
            if fr.f_code.co_filename.endswith('daemons.py'):      # not asyncio.timeout()'s internal cancel
                w.emit('cancel', ser=self.kv_ser, by=fr.f_code.co_name)
                w.instances[self.kv_ser].setdefault('cancels', []).append(w.now())
        return super().cancel(msg)


class World:
    """One operator "process": registry, settings, memories, pause toggle, killer; one fake cluster."""

    def __init__(self, handlers: list[dict], polling: float = 1.0, with_killer: bool = True,
                 instant_cycles: int | None = 10) -> None:
        import kopf
        from kopf._cogs.aiokits import aioenums, aiotime, aiotoggles
        from kopf._cogs.structs import ephemera, references
        from kopf._core.actions import application
        from kopf._core.engines import daemons, indexing
        from kopf._core.reactor import inventory, processing
        self.kopf = kopf
        self.mods = dict(aioenums=aioenums, aiotime=aiotime, application=application, daemons=daemons,
                         processing=processing)
        for mod, attr in ((daemons, '_runner'), (daemons, '_wait_for_instant_exit'), (daemons, 'stop_daemons'),
                          (daemons, 'stop_daemon'), (daemons, 'daemon_killer'), (daemons, 'spawn_daemons'),
                          (aioenums.FlagSetter, 'set'), (aiotime, 'sleep'), (application, 'apply'),
                          (processing, 'process_resource_event'), (processing, 'process_spawning_cause')):
            if not hasattr(mod, attr):
                raise ObservationPointMissing(f'{getattr(mod, "__name__", mod)}.{attr}')
        self.specs = {h['id']: h for h in handlers}
        self.order = [h['id'] for h in handlers]
        self.loop = vloop.new_loop()
        self.loop.set_task_factory(self._task_factory)
        self.log: list[dict] = []
        self.seq = 0
        self.closing = False
        self.stalls: list[dict] = []
        self.crashes: list[dict] = []
        self.instances: dict[int, dict] = {}       # serial -> record
        self.stopper_ser: dict[int, int] = {}      # id(stopper) -> serial
        self.coro_ser: dict[int, int] = {}
        self.next_ser = 0
        self.objects: dict[str, dict] = {}         # uid -> fake cluster object (or tombstone)
        self.queues: dict[str, list[dict]] = {}
        self.workers: dict[str, Any] = {}
        self.touch_handles: dict[str, Any] = {}
        self.release = False                       # lets "ignores" daemons go at close()
        self.spin = (-1, 0)
        self.sleeps = 0
        self.frozen_since: int | None = None
        self.held: list[tuple] = []
        self.killer_crash: dict | None = None
        self.cur_proc: dict[str, dict] = {}

        self.registry = kopf.OperatorRegistry()
        self.settings = kopf.OperatorSettings()
        self.settings.background.cancellation_polling = polling
        self.settings.background.instant_exit_timeout = None
        self.settings.background.instant_exit_zero_time_cycles = instant_cycles
        self.settings.posting.enabled = False
        self.resource = references.Resource('kv.dev', 'v1', 'things', namespaced=True)
        w = self

        class Memories(inventory.ResourceMemories):
            """The real container; only the killer's iteration is made observable (which memory it is inside of)."""
            def iter_all_daemon_memories(self_) -> Any:  # noqa: N805
                w.emit('kpass')                                      # a pass of the killer starts listing the memories
                for dm in super().iter_all_daemon_memories():       # RuntimeError of the real iteration passes through
                    uid = next((k for k, m in self_._items.items() if m.daemons_memory is dm), None)
                    w.emit('kenter', uid=uid, snap=w._snap(dm))
                    try:
                        yield dm
                    finally:
                        w.emit('kleave', uid=uid)
        if not hasattr(inventory.ResourceMemories, 'iter_all_daemon_memories'):
            raise ObservationPointMissing('ResourceMemories.iter_all_daemon_memories')
        self.memories = Memories()
        self.memobase = ephemera.Memo()
        self.indexers = indexing.OperatorIndexers()
        for h in handlers:
            self._register(h)

        self._orig: list[tuple[Any, str, Any]] = []
        self._install()
        self.paused_set: Any = None
        self.pause_toggle: Any = None
        self.killer: Any = None
        with vloop.running(self.loop):
            async def setup() -> None:
                self.paused_set = aiotoggles.ToggleSet(any)
                self.pause_toggle = await self.paused_set.make_toggle(name='kv-pause')
            t = self.loop.spawn(setup())
            self.loop.settle()
            t.result()
            if with_killer:
                self.killer = self.loop.spawn(daemons.daemon_killer(
                    settings=self.settings, memories=self.memories, operator_paused=self.paused_set), name='kv-killer')
                self.loop.settle()

    # ------------------------------------------------------------------ plumbing
    def now(self) -> int:
        return ms(self.loop.time())

    def emit(self, kind: str, **kw: Any) -> dict:
        self.seq += 1
        e = {'seq': self.seq, 't': self.now(), 'kind': kind, **kw}
        self.log.append(e)
        return e

    def _task_factory(self, loop: Any, coro: Any, **kw: Any) -> Any:
        t = LTask(coro, loop=loop, **kw)
        ser = self.coro_ser.pop(id(coro), None)
        if ser is not None:
            t.kv_world, t.kv_ser = self, ser
            self.instances[ser]['task'] = t
        return t

    def _patch(self, obj: Any, attr: str, new: Any) -> None:
        self._orig.append((obj, attr, getattr(obj, attr)))
        setattr(obj, attr, new)

    def _install(self) -> None:
        w = self
        m = self.mods
        daemons, aioenums, aiotime, application = m['daemons'], m['aioenums'], m['aiotime'], m['application']

        real_runner = daemons._runner

        def runner(**kw: Any) -> Any:
            handler, cause, memory = kw['handler'], kw['cause'], kw['memory']
            ser = w.next_ser
            w.next_ser += 1
            uid = cause.body.get('metadata', {}).get('uid')
            w.instances[ser] = {'ser': ser, 'uid': uid, 'id': handler.id, 'spawned': w.now(), 'ended': None,
                                'stopper': cause.stopper, 'memory': memory, 'runs': [], 'own_exit': None,
                                'spawn_ev': w.cur_proc.get(uid, {}).get('ev')}
            w.stopper_ser[id(cause.stopper)] = ser
            w.emit('spawn', ser=ser, uid=uid, id=handler.id)

            async def wrapped() -> None:
                try:
                    await real_runner(**kw)
                except vloop.Stall:
                    w.instances[ser]['stalled'] = True          # recorded in w.stalls; the instance is over
                except asyncio.CancelledError:
                    raise
                except Exception as exc:                        # e.g. KeyError from `del daemons[handler.id]`
                    if not w.closing:
                        w.crashes.append({'where': '_runner', 'error': repr(exc), 't': w.now(), 'id': handler.id})
                finally:
                    inst = w.instances[ser]
                    inst['ended'] = w.now()
                    w.emit('end', ser=ser, uid=uid, id=handler.id, reasons=reason_names(cause.stopper.reason))
            coro = wrapped()
            w.coro_ser[id(coro)] = ser
            return coro
        self._patch(daemons, '_runner', runner)

        real_set = aioenums.FlagSetter.set

        def fset(self_: Any, reason: Any = None) -> None:
            ser = w.stopper_ser.get(id(self_))
            first = self_.when is None
            real_set(self_, reason)
            if ser is not None and not w.closing:
                w.emit('set', ser=ser, reason=reason_names(reason), first=first, by=sys._getframe(1).f_code.co_name)
                inst = w.instances[ser]
                inst.setdefault('sets', []).append((w.now(), reason_names(reason)))
        self._patch(aioenums.FlagSetter, 'set', fset)

        real_wait = daemons._wait_for_instant_exit

        async def wait_instant(*, settings: Any, daemon: Any) -> None:
            ser = w.stopper_ser.get(id(daemon.stopper))
            before = daemon.task.done()
            await real_wait(settings=settings, daemon=daemon)
            w.emit('wait', ser=ser, before=before, after=daemon.task.done())
        self._patch(daemons, '_wait_for_instant_exit', wait_instant)

        real_stop_daemons = daemons.stop_daemons

        async def stop_daemons(*, settings: Any, daemons: Any, reason: Any = None) -> Any:
            sers = [w.stopper_ser.get(id(d.stopper)) for d in daemons.values()]
            kw = {} if reason is None else {'reason': reason}
            tname = getattr(asyncio.current_task(), 'get_name', lambda: '')()
            uid = tname[len('kv-worker '):] if tname.startswith('kv-worker ') else None
            e = w.emit('stop_begin', uid=uid, sers=sers, reason=reason_names(reason) if reason is not None else ['RESOURCE_DELETED'])
            try:
                delays = await real_stop_daemons(settings=settings, daemons=daemons, **kw)
            except BaseException as exc:
                w.emit('stop_end', uid=uid, begin=e['seq'], error=repr(exc))
                raise
            w.emit('stop_end', uid=uid, begin=e['seq'], delays=[ms(d) for d in delays])
            return delays
        self._patch(daemons, 'stop_daemons', stop_daemons)

        real_stop_daemon = daemons.stop_daemon

        def stop_daemon(*, settings: Any, daemon: Any, reason: Any) -> Any:
            ser = w.stopper_ser.get(id(daemon.stopper))
            inst_ = w.instances.get(ser) if ser is not None else None
            mem_ = inst_['memory'] if inst_ else None
            w.emit('ksweep', ser=ser, reason=reason_names(reason),       # the killer picked this daemon from `memories`
                   snap=w._snap(mem_) if mem_ is not None else None,
                   known=any(m.daemons_memory is mem_ for m in w.memories._items.values()))

            async def wrapped() -> None:
                e = w.emit('kstop_begin', ser=ser, reason=reason_names(reason))
                try:
                    await real_stop_daemon(settings=settings, daemon=daemon, reason=reason)
                except asyncio.CancelledError:
                    w.emit('kstop_end', begin=e['seq'], ser=ser, cancelled=True)
                    raise
                except Exception as exc:
                    w.crashes.append({'where': 'stop_daemon', 'error': repr(exc), 't': w.now()})
                    raise
                w.emit('kstop_end', begin=e['seq'], ser=ser, cancelled=False)
            return wrapped()
        self._patch(daemons, 'stop_daemon', stop_daemon)

        real_sleep = aiotime.sleep

        async def sleep(delays: Any, wakeup: Any = None) -> Any:
            steps = w.loop.steps
            if w.spin[0] == steps:
                w.spin = (steps, w.spin[1] + 1)
            else:
                w.spin = (steps, 1)
            fr0 = sys._getframe(1)
            if fr0.f_code.co_name in ('_timer', '_daemon'):
                w.emit('sleep', ser=getattr(asyncio.current_task(), 'kv_ser', None), func=fr0.f_code.co_name) \
                    if w.spin[1] <= 3 else None
                w.sleeps += 1
            if w.spin[1] > SPIN_LIMIT:
                fr = sys._getframe(1)
                line = linecache.getline(fr.f_code.co_filename, fr.f_lineno).strip()
                rec = {'t': w.now(), 'func': fr.f_code.co_name, 'line': line,
                       'handler': getattr(fr.f_locals.get('handler'), 'id', None),
                       'stopper_set': bool(getattr(fr.f_locals.get('stopper'), 'is_set', lambda: False)())}
                w.stalls.append(rec)
                w.emit('stall', **rec)
                w.spin = (-1, 0)
                raise vloop.Stall(f"{SPIN_LIMIT} sleep() calls without an event-loop step in {rec['func']}: {line}")
            return await real_sleep(delays, wakeup)
        self._patch(aiotime, 'sleep', sleep)

        real_spc = m['processing'].process_spawning_cause

        async def spc(*, registry: Any, settings: Any, memory: Any, cause: Any, operator_paused: Any) -> Any:
            uid = cause.body.get('metadata', {}).get('uid')
            e = w.emit('spc_begin', uid=uid, reset=bool(cause.reset), known=uid in w.memories._items,
                       forever=sorted(memory.daemons_memory.forever_stopped))
            try:
                delays = await real_spc(registry=registry, settings=settings, memory=memory, cause=cause,
                                        operator_paused=operator_paused)
            except vloop.Stall:
                raise
            except Exception as exc:
                w.emit('spc_end', begin=e['seq'], uid=uid, error=repr(exc))
                raise
            w.emit('spc_end', begin=e['seq'], uid=uid, delays=[ms(d) for d in delays], snap=w._snap(memory.daemons_memory))
            return delays
        self._patch(m['processing'], 'process_spawning_cause', spc)

        async def apply(*, settings: Any, resource: Any, body: Any, patch: Any, delays: Any, logger: Any,
                        stream_pressure: Any = None) -> Any:
            return w._apply(body, patch, list(delays))
        self._patch(application, 'apply', apply)

    def uninstall(self) -> None:
        for obj, attr, orig in reversed(self._orig):
            setattr(obj, attr, orig)
        self._orig.clear()

    # ------------------------------------------------------------------ user functions (scripted)
    def _register(self, h: dict) -> None:
        kopf = self.kopf
        w = self
        hid = h['id']
        labels = {f'm-{hid}': 'y'}

        def inst_of(kwargs: dict) -> dict | None:
            st = kwargs.get('stopped')
            setter = getattr(st, '_setter', None)
            ser = w.stopper_ser.get(id(setter))
            return w.instances.get(ser) if ser is not None else None

        if h['kind'] == 'daemon':
            temper, dur = h['temper'], h.get('dur', 0) / 1000.0

            async def dfn(**kwargs: Any) -> None:
                inst = inst_of(kwargs)
                ser = inst['ser'] if inst else None
                stopped = kwargs['stopped']
                w.emit('enter', ser=ser)
                run = {'enter': w.now(), 'exit': None, 'how': None}
                if inst is not None:
                    inst['runs'].append(run)
                how = 'return'
                try:
                    if temper == 'own':
                        await asyncio.sleep(dur)               # exits on its own accord, deaf to everything else
                        how = 'own'
                    elif temper == 'obeys':
                        await stopped.wait()
                        w.emit('flag_seen', ser=ser, reasons=reason_names(stopped.reason))
                        if dur:
                            await asyncio.sleep(dur)           # cleanup
                    elif temper == 'cancel':
                        try:
                            await asyncio.Event().wait()       # deaf to the flag
                        except asyncio.CancelledError:
                            w.emit('cancel_seen', ser=ser)
                            if dur and not w.closing:
                                with contextlib.suppress(asyncio.CancelledError):
                                    await asyncio.sleep(dur)   # cleanup
                            how = 'cancelled'
                            raise
                    elif temper == 'retry':
                        await asyncio.sleep(dur)
                        how = 'temporary-error'
                        raise kopf.TemporaryError('scripted failure', delay=1)
                    elif temper == 'ignores':
                        while not w.release:
                            try:
                                await asyncio.sleep(1000)
                            except asyncio.CancelledError:
                                w.emit('cancel_seen', ser=ser)
                                how = 'cancel-ignored'
                    else:
                        raise ValueError(temper)
                finally:
                    run['exit'], run['how'] = w.now(), how
                    if inst is not None and how == 'own' and not stopped.is_set():
                        inst['own_exit'] = w.now()
                    w.emit('exit', ser=ser, how=how)
            sec = lambda v: None if v is None else v / 1000.0
            kopf.daemon('kv.dev', 'v1', 'things', id=hid, registry=self.registry, labels=labels,
                        cancellation_backoff=sec(h.get('backoff')), cancellation_timeout=sec(h.get('timeout')),
                        cancellation_polling=sec(h.get('polling')),
                        initial_delay=sec(h.get('initial_delay')))(dfn)
        elif h['kind'] == 'timer':
            dur = h.get('dur', 0) / 1000.0

            async def tfn(**kwargs: Any) -> None:
                # timers do not get `stopped`; find the instance through the running task
                task = asyncio.current_task()
                ser = getattr(task, 'kv_ser', None)
                inst = w.instances.get(ser) if ser is not None else None
                w.emit('enter', ser=ser)
                run = {'enter': w.now(), 'exit': None, 'how': None}
                if inst is not None:
                    inst['runs'].append(run)
                try:
                    if dur:
                        await asyncio.sleep(dur)
                    if h.get('fail'):
                        run['how'] = 'temporary-error'
                        raise kopf.TemporaryError('scripted failure', delay=1)
                    run['how'] = 'return'
                finally:
                    run['exit'] = w.now()
                    w.emit('exit', ser=ser, how=run['how'] or 'cancelled')
            sec = lambda v: None if v is None else v / 1000.0
            kopf.timer('kv.dev', 'v1', 'things', id=hid, registry=self.registry, labels=labels,
                       interval=sec(h.get('interval')), idle=sec(h.get('idle')), sharp=h.get('sharp'),
                       initial_delay=sec(h.get('initial_delay')))(tfn)
        else:
            raise ValueError(h['kind'])

    # ------------------------------------------------------------------ fake cluster
    def _body(self, uid: str) -> dict:
        o = self.objects[uid]
        meta: dict[str, Any] = {'uid': uid, 'name': uid, 'namespace': 'ns', 'resourceVersion': str(o['rv']),
                                'labels': {f'm-{i}': 'y' for i in sorted(o['match'])}}
        if o['finalizers']:
            meta['finalizers'] = list(o['finalizers'])
        if o['deleting']:
            meta['deletionTimestamp'] = '2030-01-01T00:00:00Z'
        return {'apiVersion': 'kv.dev/v1', 'kind': 'Thing', 'metadata': meta, 'spec': {'x': o['x']}}

    def _enqueue(self, uid: str, etype: str | None, body: dict) -> None:
        # While the operator is paused its watch-streams are stopped: only what is already in flight at the moment of pausing
        # (same virtual instant) still reaches the processor (#1266); everything later waits for the resumption.
        if self.frozen_since is not None and self.now() > self.frozen_since:
            self.held.append((uid, etype, body))
            self.emit('held', uid=uid, type=etype)
            return
        self.queues.setdefault(uid, []).append({'type': etype, 'object': body})
        h = self.touch_handles.pop(uid, None)
        if h is not None:
            h.cancel()     # a new event interrupts the sleep (stream pressure)
        if uid not in self.workers or self.workers[uid].done():
            self.workers[uid] = self.loop.spawn(self._worker(uid), name=f'kv-worker {uid}')

    async def _worker(self, uid: str) -> None:
        processing = self.mods['processing']
        q = self.queues[uid]
        while q:
            ev = q.pop(0)
            meta = ev['object']['metadata']
            info = {'uid': uid, 'type': ev['type'], 'deleting': 'deletionTimestamp' in meta,
                    'matching': sorted(k[2:] for k in meta.get('labels', {})),
                    'paused': bool(self.paused_set.is_on()), 'finalizers': list(meta.get('finalizers', []))}
            b = self.emit('proc_begin', **info)
            self.cur_proc[uid] = {'ev': info, 'seq': b['seq']}
            try:
                await processing.process_resource_event(
                    lifecycle=self.kopf.lifecycles.all_at_once, indexers=self.indexers, registry=self.registry,
                    settings=self.settings, memories=self.memories, memobase=self.memobase, resource=self.resource,
                    raw_event=ev, event_queue=asyncio.Queue(), operator_paused=self.paused_set, no_throttling=True)
            except asyncio.CancelledError:
                raise
            except vloop.Stall:
                self.emit('proc_end', begin=b['seq'], uid=uid, error='stall')
            except Exception as exc:  # the operator would log and throttle; for C09 it is a crash of the stopping path
                self.crashes.append({'where': 'process_resource_event', 'error': repr(exc), 't': self.now(), 'event': info})
                self.emit('proc_end', begin=b['seq'], uid=uid, error=repr(exc))
            else:
                self.emit('proc_end', begin=b['seq'], uid=uid, **self.cur_proc[uid].get('result', {}))
            self.cur_proc.pop(uid, None)

    def _apply(self, body: Any, patch: Any, delays: list[float]) -> Any:
        from kopf._cogs.structs import finalizers
        uid = body.get('metadata', {}).get('uid')
        o = self.objects.get(uid)
        fin = self.settings.persistence.finalizer
        acts = []
        for fn in getattr(patch, 'fns', []):
            f = getattr(fn, 'func', fn)
            if f is finalizers.block_deletion:
                acts.append('block')
            elif f is finalizers.allow_deletion:
                acts.append('allow')
        self.cur_proc.setdefault(uid, {})['result'] = {'delays': [ms(d) for d in delays], 'fns': acts}
        changed = False
        if o is not None and o['exists']:
            for a in acts:
                if a == 'block' and fin not in o['finalizers']:
                    o['finalizers'].append(fin)
                    changed = True
                if a == 'allow' and fin in o['finalizers']:
                    o['finalizers'].remove(fin)
                    changed = True
            if changed:
                o['rv'] += 1
                if o['deleting'] and not o['finalizers']:
                    last = self._body(uid)
                    last['metadata']['finalizers'] = [fin]     # K8s shows the last finalizer on DELETED
                    o['exists'] = False
                    self._enqueue(uid, 'DELETED', last)
                else:
                    self._enqueue(uid, 'MODIFIED', self._body(uid))
        if delays and not changed:
            d = min(delays)
            when = self.loop.time() + max(d, 0.0)
            self.touch_handles[uid] = self.loop.call_at(when, self._touch, uid)
        return (not delays and not changed), None, None

    def _touch(self, uid: str) -> None:
        self.touch_handles.pop(uid, None)
        o = self.objects.get(uid)
        if o is not None and o['exists']:
            o['rv'] += 1
            self._enqueue(uid, 'MODIFIED', self._body(uid))

    # ------------------------------------------------------------------ environment actions
    def act(self, a: dict) -> None:
        k = a['op']
        uid = a.get('uid', 'u0')
        o = self.objects.get(uid)
        self.emit('act', **a)
        if k == 'create':
            if o is None:
                self.objects[uid] = {'exists': True, 'rv': 1, 'match': set(a.get('match', [])), 'finalizers': [],
                                     'deleting': False, 'x': 0}
                self._enqueue(uid, 'ADDED' if a.get('watch', True) else None, self._body(uid))
        elif o is None or not o['exists']:
            return
        elif k == 'toggle':
            if not o['deleting']:
                o['match'] ^= {a['id']}
            o['rv'] += 1
            self._enqueue(uid, 'MODIFIED', self._body(uid))
        elif k == 'edit':
            o['x'] += 1
            o['rv'] += 1
            self._enqueue(uid, 'MODIFIED', self._body(uid))
        elif k == 'delete':            # the user's `kubectl delete`
            if o['deleting']:
                return
            o['rv'] += 1
            if o['finalizers']:
                o['deleting'] = True
                self._enqueue(uid, 'MODIFIED', self._body(uid))
            else:                      # gone at once: no finalizer (yet, or any more) — no deletionTimestamp is ever seen
                last = self._body(uid)
                o['exists'] = False
                self._enqueue(uid, 'DELETED', last)
        elif k == 'strip':             # somebody force-removes all finalizers
            if not o['finalizers']:
                return
            o['rv'] += 1
            if o['deleting']:
                last = self._body(uid)  # shows deletionTimestamp and the last finalizer
                o['finalizers'] = []
                o['exists'] = False
                self._enqueue(uid, 'DELETED', last)
            else:
                o['finalizers'] = []
                self._enqueue(uid, 'MODIFIED', self._body(uid))
        else:
            raise ValueError(k)

    def pause(self, on: bool) -> None:
        self.emit('act', op='pause' if on else 'resume')
        if on and self.frozen_since is None:
            self.frozen_since = self.now()
        t = self.loop.spawn(self.pause_toggle.turn_to(on))
        self.loop.settle()
        t.result()
        if not on:
            self.frozen_since = None
            held, self.held = self.held, []
            for (uid, etype, body) in held:           # the streams are re-established: what happened meanwhile arrives now
                self._enqueue(uid, etype, body)
            self.loop.settle()

    def exit(self, horizon_ms: int = 60000) -> bool:
        """Operator exit: cancel the killer (as the orchestrator does) and wait for it (virtual time)."""
        self.emit('act', op='exit')
        if self.killer is None:
            return True
        self.check_killer()
        if self.killer.done():
            return True
        self.killer.cancel()
        done = self.loop.run_until(self.killer.done, self.loop.time() + horizon_ms / 1000.0)
        self.emit('killer_done' if done else 'killer_hung')
        self.check_killer()
        return done

    def run_to(self, t_ms: int) -> None:
        self.loop.run_until(lambda: False, t_ms / 1000.0)
        self.loop.advance_to(t_ms / 1000.0)
        self.loop.settle()
        self.check_killer()

    def check_killer(self) -> None:
        """daemon_killer is a root task of the operator: if it dies, the operator dies."""
        k = self.killer
        if k is not None and self.killer_crash is None and k.done() and not k.cancelled() and k.exception() is not None:
            import traceback
            exc = k.exception()
            tb = traceback.extract_tb(exc.__traceback__)
            self.killer_crash = {'where': 'daemon_killer', 'error': repr(exc), 't': self.now(),
                                 'line': tb[-1].line if tb else None, 'func': tb[-1].name if tb else None}
            self.emit('killer_crash', **self.killer_crash)

    # ------------------------------------------------------------------ snapshots
    def snapshot(self, uid: str) -> dict | None:
        """State abstraction of the object's memory as the implementation holds it now."""
        mem = self.memories._items.get(uid)
        return self._snap(mem.daemons_memory) if mem is not None else None

    def _snap(self, dm: Any) -> dict:
        run = []
        for hid, d in dm.running_daemons.items():
            ser = self.stopper_ser.get(id(d.stopper))
            run.append({'id': hid, 'ser': ser, 'reasons': reason_names(d.stopper.reason),
                        'when': None if d.stopper.when is None else ms(d.stopper.when), 'done': d.task.done()})
        return {'running': run, 'forever': sorted(dm.forever_stopped)}

    def live(self, uid: str | None = None) -> list[dict]:
        return [i for i in self.instances.values() if i['ended'] is None and (uid is None or i['uid'] == uid)]

    def close(self) -> None:
        self.close_seq = self.seq          # whatever ends after this point was ended by the harness, not by the operator
        self.closing = True
        self.release = True
        for h in self.touch_handles.values():
            h.cancel()
        try:
            with warnings.catch_warnings():
                warnings.simplefilter('ignore')
                vloop.close_loop(self.loop)
        finally:
            self.uninstall()


@contextlib.contextmanager
def quiet() -> Any:
    """kopf logs and ResourceWarnings are noise here."""
    lg = logging.getLogger('kopf')
    prev = lg.level, lg.propagate
    lg.setLevel(logging.CRITICAL + 1)
    alg = logging.getLogger('asyncio')
    aprev = alg.level
    alg.setLevel(logging.CRITICAL + 1)
    try:
        with warnings.catch_warnings():
            warnings.simplefilter('ignore')
            yield
    finally:
        lg.setLevel(prev[0])
        alg.setLevel(aprev)


@contextlib.contextmanager
def wall_backstop(seconds: float) -> Any:
    """A coroutine that never yields hangs the whole process; the counter in the sleep() wrapper catches the loops that
    go through aiotime.sleep, this alarm catches everything else (the check must never hang)."""
    def on_alarm(signum: int, frame: Any) -> None:
        raise Hang(f'wall-clock watchdog: no progress within {seconds}s')
    prev = signal.signal(signal.SIGALRM, on_alarm)
    signal.setitimer(signal.ITIMER_REAL, seconds)
    try:
        yield
    finally:
        signal.setitimer(signal.ITIMER_REAL, 0)
        signal.signal(signal.SIGALRM, prev)
