"""Storage configurations: generation, real kopf objects, Coq terms (Model/Storage.v), digest tables."""
from __future__ import annotations

import hashlib
import random
import warnings
from typing import Any

from kv import coqio as cq

PREFIXES = ['kopf.zalando.org', 'my-op.example.com', 'kopf.dev', 'sub.kopf.zalando.org', 'p',
            'lengthy-operator-name-to-hit-63-chars.example.com', 'x' * 56 + '.io', 'y' * 100 + '.example.com',
            'example.com']


def gen_progress_cfg(r: random.Random, depth: int = 1) -> dict:
    k = r.randrange(10)
    if k < 4:
        return {'kind': 'ann', 'prefix': r.choice(PREFIXES), 'v1': r.random() < 0.6, 'verbose': r.random() < 0.3,
                'touch_key': r.choice(['touch-dummy', 'touch-dummy', 'tk'])}
    if k < 6:
        name = r.choice(['kopf', 'myop'])
        return {'kind': 'status', 'field': ['status', name, 'progress'], 'touch_field': ['status', name, 'dummy'],
                'nowrite': False}
    if k < 8:
        name = r.choice(['kopf', 'myop'])
        return {'kind': 'smart', 'prefix': r.choice(PREFIXES), 'v1': r.random() < 0.6, 'verbose': r.random() < 0.3,
                'touch_key': 'touch-dummy', 'field': ['status', name, 'progress'],
                'touch_field': ['status', name, 'dummy']}
    if depth <= 0:
        return gen_progress_cfg(r, depth)
    subs = [gen_progress_cfg(r, depth - 1) for _ in range(r.choice([1, 2, 2]))]
    return {'kind': 'multi', 'storages': subs}


def gen_diffbase_cfg(r: random.Random, depth: int = 1) -> dict:
    k = r.randrange(10)
    ignored = r.choice([[], [], [], [['spec', 'ignored']], [['metadata', 'labels', 'tier']], [['status', 'x'], ['spec', 'a', 'b']]])
    if k < 5:
        return {'kind': 'ann', 'prefix': r.choice(PREFIXES), 'key': r.choice(['last-handled-configuration'] * 3 + ['lhc', 'k' * 70]),
                'v1': r.random() < 0.6, 'ignored': ignored}
    if k < 8:
        name = r.choice(['kopf', 'myop'])
        return {'kind': 'status', 'field': ['status', name, 'last-handled-configuration'], 'ignored': ignored}
    if depth <= 0:
        return gen_diffbase_cfg(r, depth)
    return {'kind': 'multi', 'storages': [gen_diffbase_cfg(r, depth - 1) for _ in range(r.choice([1, 2]))]}


def build_progress(cfg: dict) -> Any:
    from kopf._cogs.configs import progress
    with warnings.catch_warnings():
        warnings.simplefilter('ignore')
        k = cfg['kind']
        if k == 'ann':
            return progress.AnnotationsProgressStorage(prefix=cfg['prefix'], v1=cfg['v1'], verbose=cfg['verbose'],
                                                       touch_key=cfg['touch_key'])
        if k == 'status':
            cls = progress.NoWriteStatusProgressStorage if cfg['nowrite'] else progress.StatusProgressStorage
            return cls(field=tuple(cfg['field']), touch_field=tuple(cfg['touch_field']))
        if k == 'smart':
            return progress.SmartProgressStorage(prefix=cfg['prefix'], v1=cfg['v1'], verbose=cfg['verbose'],
                                                 touch_key=cfg['touch_key'], field=tuple(cfg['field']),
                                                 touch_field=tuple(cfg['touch_field']))
        if k == 'multi':
            return progress.MultiProgressStorage([build_progress(c) for c in cfg['storages']])
    raise ValueError(k)


def build_diffbase(cfg: dict) -> Any:
    from kopf._cogs.configs import diffbase
    with warnings.catch_warnings():
        warnings.simplefilter('ignore')
        k = cfg['kind']
        ign = [tuple(p) for p in cfg.get('ignored', [])]
        if k == 'ann':
            return diffbase.AnnotationsDiffBaseStorage(prefix=cfg['prefix'], key=cfg['key'], v1=cfg['v1'], ignored_fields=ign)
        if k == 'status':
            return diffbase.StatusDiffBaseStorage(field=tuple(cfg['field']), ignored_fields=ign)
        if k == 'multi':
            return diffbase.MultiDiffBaseStorage([build_diffbase(c) for c in cfg['storages']])
    raise ValueError(k)


def coq_progress(cfg: dict) -> str:
    k = cfg['kind']
    if k == 'ann':
        return f"(PAnn {cq.cstr(cfg['prefix'])} {cq.cbool(cfg['v1'])} {cq.cbool(cfg['verbose'])} {cq.cstr(cfg['touch_key'])})"
    if k == 'status':
        return f"(PStatus {cq.cpath(cfg['field'])} {cq.cpath(cfg['touch_field'])} {cq.cbool(cfg['nowrite'])})"
    if k == 'smart':
        return (f"(smart {cq.cstr(cfg['prefix'])} {cq.cbool(cfg['v1'])} {cq.cbool(cfg['verbose'])} {cq.cstr(cfg['touch_key'])} "
                f"{cq.cpath(cfg['field'])} {cq.cpath(cfg['touch_field'])})")
    if k == 'multi':
        return '(PMulti ' + cq.clist(coq_progress(c) for c in cfg['storages']) + ')'
    raise ValueError(k)


def coq_diffbase(cfg: dict) -> str:
    k = cfg['kind']
    ign = cq.clist(cq.cpath(p) for p in cfg.get('ignored', []))
    if k == 'ann':
        return f"(DAnn {cq.cstr(cfg['prefix'])} {cq.cstr(cfg['key'])} {cq.cbool(cfg['v1'])} {ign})"
    if k == 'status':
        return f"(DStatus {cq.cpath(cfg['field'])} {ign})"
    if k == 'multi':
        return '(DMulti ' + cq.clist(coq_diffbase(c) for c in cfg['storages']) + ')'
    raise ValueError(k)


def ann_prefixes(cfg: dict) -> list[str]:
    """Prefixes of all annotation storages in a configuration."""
    k = cfg['kind']
    if k in ('ann', 'smart'):
        return [cfg['prefix']]
    if k == 'multi':
        return [p for c in cfg['storages'] for p in ann_prefixes(c)]
    return []


def cfg_keys(cfg: dict) -> list[str]:
    """Record keys the configuration itself hashes (touch keys, diff-base keys)."""
    k = cfg['kind']
    out = []
    if 'touch_key' in cfg:
        out.append(cfg['touch_key'])
    if k == 'ann' and 'key' in cfg:
        out.append(cfg['key'])
    if k == 'multi':
        out += [x for c in cfg['storages'] for x in cfg_keys(c)]
    return out


def safe(key: str) -> str:
    return key.replace('/', '.').replace('<', '_').replace('>', '_')


def digest(s: str) -> list[int]:
    return list(hashlib.blake2b(s.encode('utf-8'), digest_size=4).digest())


def digest_table(keys: list[str]) -> str:
    """Coq term `table_dg [...]`: the real blake2b digests of every string the model may hash."""
    need: set[str] = set()
    for k in keys:
        for kk in (k, k + '-ofDRS'):
            need.add(kk)
            need.add(safe(kk))
    return '(table_dg ' + cq.clist(cq.cpair(cq.cstr(s), cq.clist(cq.cN(b) for b in digest(s))) for s in sorted(need)) + ')'
