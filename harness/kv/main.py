"""Entry point: ./check Cxx [quick|thorough] | ./check Cxx --replay path | ./check all [tier]."""
from __future__ import annotations

import importlib
import json
import os
import subprocess
import sys
import traceback

from kv import framework as fw

ALL = [f'C{i:02d}' for i in range(1, 21)]


def run_one(prop: str, tier: str, seed: int) -> int:
    try:
        mod = importlib.import_module(f'kv.props.{prop.lower()}')
    except ModuleNotFoundError as e:
        if e.name and e.name.startswith('kv.props'):
            print(f'no check is built for {prop}', file=sys.stderr)
            return 2
        raise
    ctx = fw.Ctx(prop, tier, seed)
    try:
        return mod.run(ctx)
    except Exception:
        # The harness itself failed (e.g. an observation point disappeared from the source):
        # fail closed — the correspondence is no longer shown.
        tb = traceback.format_exc()
        fw.log(tb)
        ctx.correspondence_break('harness', {'error': tb[-3000:]})
        return ctx.finish(rule=getattr(mod, 'RULE', 'n/a'))


def replay(prop: str, path: str) -> int:
    mod = importlib.import_module(f'kv.props.{prop.lower()}')
    body = json.loads(open(path).read())
    ctx = fw.Ctx(prop, body.get('tier', 'quick'), int(body.get('seed', 0)))
    if not hasattr(mod, 'replay'):
        print(f'{prop}: no replay function; re-run ./check {prop} {ctx.tier} with VERIF_SEED={ctx.seed}')
        return 2
    still = mod.replay(ctx, body)
    print(f'replay {path}: property {"FAILS" if still else "holds"} on this input')
    if still:
        print(f'VIOLATION property={prop} replay={path}')
    return 1 if still else 0


def main(argv: list[str]) -> int:
    if not argv:
        print(__doc__)
        return 2
    prop = argv[0]
    if '--replay' in argv:
        return replay(prop, argv[argv.index('--replay') + 1])
    tier = argv[1] if len(argv) > 1 else os.environ.get('VERIF_TIER', 'quick')
    if tier not in ('quick', 'thorough'):
        print(f'unknown tier {tier}', file=sys.stderr)
        return 2
    seed = int(os.environ.get('VERIF_SEED', '20260925'))
    if prop == 'all':
        rc = 0
        for p in ALL:
            r = subprocess.run([sys.executable, '-m', 'kv.main', p, tier]).returncode
            rc = max(rc, 1 if r else 0)
        return rc
    return run_one(prop, tier, seed)


if __name__ == '__main__':
    rc = main(sys.argv[1:])
    sys.stdout.flush()
    sys.stderr.flush()
    # leave without interpreter finalisation: coroutines of killed operator incarnations that were never awaited
    # would otherwise print tracebacks while the interpreter is torn down (noise only; everything is written by now)
    os._exit(rc)
