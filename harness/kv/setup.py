"""setup_cmd: generate Gen/*.v from /repo, (re)generate the Makefile, build every .vo."""
import subprocess
import sys

from kv import framework as fw


def main() -> int:
    with fw.CoqLock():
        try:
            from kv import awaits
            awaits.generate()
        except ImportError:
            pass
        fw.ensure_makefile()
        p = subprocess.run(['timeout', '3000', 'make', f'-j{max(fw.JOBS, 12)}', '-k'], cwd=fw.COQ)
    print('setup: coq build', 'ok' if p.returncode == 0 else 'FAILED (checks will report what is broken)')
    return 0


if __name__ == '__main__':
    sys.exit(main())
