#!/bin/bash
# Offline build of the framework from files on disk: the whole Coq development (full .vo, no -vos).
set -e
cd "$(dirname "$0")"
export PYTHONPATH="$PWD/harness:${KOPF_REPO:-/repo}" PYTHONHASHSEED=0 PYTHONDONTWRITEBYTECODE=1
mkdir -p build evidence coq/Gen
/venv/bin/python -m kv.setup
